import MsqProofs.Lemmas.ValPred
import MsqModel.Helpers
import MsqModel.Parse.Entry
import MsqModel.Driver.ShowVal
/-!
# C11 — trees are immutable, hashable values with structural equality

(a) schema (S, kernel-evaluated on the class table regenerated from `/repo`): every AST dataclass is frozen, uses slots, is hashable
and has exactly the generated `__eq__` / `__hash__` / `__setattr__` (no special method written by hand);
(b) values (H): the generic value of EVERY typed tree — so of everything the parser model returns — contains no list
(`Val.immutable`) and has, at every node, exactly the dataclass fields of its class in order (`Val.wellShaped` against
the regenerated table);
(d) helpers: `set_with_clauses`, `set_table_name`, `append_column`, `append_partition_by_column` return a node of the
same class whose fields are immutable when the receiver's and the argument are, and leave the receiver as it was;
and so does `change_type` since /repo 0d6c89d (it stored a list before: F-C11-1, and `append_column` then extended the receiver's
own list: F-C11-2; both are kept as regression examples).

Assumed, not modelled (trusted base, validated on every node by the `IMM` command): CPython rejects attribute assignment on
a frozen dataclass, and hashes / compares dataclasses, tuples, strings and enums structurally.
-/
namespace C11
open Ast Help

/-! ## (a) the class table -/

/-- every dataclass of `core/node.py` (abstract ones included) is `frozen ∧ eq ∧ slots`, is hashable, and writes none of the special
methods `__eq__ / __ne__ / __hash__ / __setattr__ / __delattr__ / __lt__ … / __getattr(ibute)__` by hand: equality, hash and attribute
protection are exactly the ones the dataclass decorator generates from the fields (a hand-written `__eq__` would be kept by the decorator
while `__hash__` is still generated from the raw fields) -/
theorem schema_frozen :
    (Gen.schema.all fun c => c.frozen && c.eq && c.slots && !c.ownSetattr && c.ownSpecial.isEmpty && c.hashable) = true := by decide +kernel

/-- the (class, field names) pairs built by `toVal` are exactly the dataclass fields of the regenerated class table -/
theorem shapes_ok : (shapes.all fun p => Gen.fieldsOf p.1 == some p.2) = true := by decide +kernel

theorem accepts_shape : (shapePred Gen.fieldsOf).Accepts := by
  intro c ns h
  exact List.all_eq_true.1 shapes_ok (c, ns) h

theorem accepts_imm : immPred.Accepts := fun _ _ _ => rfl

/-! ## (b) every tree -/

/-- **C11(b)**: the value of every statement tree holds no mutable container, at any depth -/
theorem stmt_immutable (s : Stmt) : Val.immutable s.toVal = true := ValPred.stmt_sat (Q := immPred) accepts_imm s

/-- every node of every statement tree has exactly the fields of its dataclass, in order -/
theorem stmt_wellShaped (s : Stmt) : Val.wellShaped Gen.fieldsOf s.toVal = true :=
  ValPred.stmt_sat (Q := shapePred Gen.fieldsOf) accepts_shape s

theorem expr_immutable (e : Expr) : Val.immutable e.toVal = true := ValPred.expr_sat (Q := immPred) accepts_imm e
theorem expr_wellShaped (e : Expr) : Val.wellShaped Gen.fieldsOf e.toVal = true :=
  ValPred.expr_sat (Q := shapePred Gen.fieldsOf) accepts_shape e
theorem query_immutable (q : Query) : Val.immutable q.toVal = true := ValPred.query_sat (Q := immPred) accepts_imm q
theorem createTable_immutable (c : CreateTable) : Val.immutable c.toVal = true := ValPred.createTable_sat (Q := immPred) accepts_imm c
theorem defCol_immutable (c : DefCol) : Val.immutable c.toVal = true := ValPred.defCol_sat (Q := immPred) accepts_imm c

/-- **C11(b) on the parser model**: every statement `parse_statements` returns, for every text and dialect -/
theorem parsed_immutable (d : Gen.D) (text : List Char) (ss : List Stmt) (_h : PM.parseStatementsText d text = .ok ss) :
    ∀ s ∈ ss, Val.immutable s.toVal = true ∧ Val.wellShaped Gen.fieldsOf s.toVal = true :=
  fun s _ => ⟨stmt_immutable s, stmt_wellShaped s⟩

/-- **C11(b) on every public entry point** (`SQLParser.parse_<entry>(text, dialect)`, 59 of them): whatever node the parser
model returns is immutable and well-shaped.  (`parse_statements` itself returns a Python list of statements by design; its
elements are covered by `parsed_immutable`.) -/
theorem entry_immutable (entry : String) (d : Gen.D) (text : List Char) (v : Val) (n : Nat)
    (h : PM.parseText entry d text = .ok (v, n)) (hne : entry ≠ "statements") :
    Val.immutable v = true ∧ Val.wellShaped Gen.fieldsOf v = true := by
  unfold PM.parseText at h
  split at h
  · cases h
  · rename_i name p hf
    have hmem := List.mem_of_find?_eq_some hf
    have hname : name = entry := by
      have := List.find?_some hf
      simpa using this
    split at h
    · cases h
    · split at h
      · rename_i v' r hp
        injection h with h; injection h with h1 h2; subst h1
        have hne' : (name, p).1 ≠ "statements" := by rw [hname]; exact hne
        exact ⟨ValPred.entries_sat (Q := immPred) accepts_imm _ hmem hne' _ _ _ _ _ hp,
               ValPred.entries_sat (Q := shapePred Gen.fieldsOf) accepts_shape _ hmem hne' _ _ _ _ _ hp⟩
      · cases h

/-- non-vacuity: a text with every statement family is accepted … -/
example : (match PM.parseStatementsText .MYSQL
    "SELECT a, COUNT(*) FROM s.t x JOIN u ON x.a = u.a WHERE b IN (1, 2) GROUP BY a; INSERT INTO t (a) VALUES (1); CREATE TABLE t (a INT(11) NOT NULL COMMENT 'x', PRIMARY KEY (a)) ENGINE=InnoDB; ALTER TABLE t DROP COLUMN a; UPDATE t SET a = 1 WHERE b = 2".toList
    with | .ok ss => ss.length == 5 | .error _ => false) = true := by decide +kernel

/-! ## (d) the copy-and-modify helpers -/

theorem immutableF_dictSet (fs : Fields) (k : String) (v : Val) (hf : Val.immutableF fs = true) (hv : Val.immutable v = true) :
    Val.immutableF (dictSet fs k v) = true := by
  induction fs with
  | nil => simp [dictSet, Val.immutableF, hv]
  | cons p r ih =>
    obtain ⟨n, x⟩ := p
    simp only [Val.immutableF, Bool.and_eq_true] at hf
    unfold dictSet
    split
    · simp [Val.immutableF, hv, hf.2]
    · simp [Val.immutableF, hf.1, ih hf.2]

theorem immutable_dictGet (fs : Fields) (k : String) (v : Val) (hf : Val.immutableF fs = true) (hg : dictGet fs k = some v) :
    Val.immutable v = true := by
  induction fs with
  | nil => simp [dictGet] at hg
  | cons p r ih =>
    obtain ⟨n, x⟩ := p
    simp only [Val.immutableF, Bool.and_eq_true] at hf
    unfold dictGet at hg
    split at hg
    · injection hg with hg
      rw [← hg]
      exact hf.1
    · exact ih hf.2 hg

theorem not_immutableF_dictSet (fs : Fields) (k : String) (v : Val) (hv : Val.immutable v = false) :
    Val.immutableF (dictSet fs k v) = false := by
  induction fs with
  | nil => simp [dictSet, Val.immutableF, hv]
  | cons p r ih =>
    obtain ⟨n, x⟩ := p
    unfold dictSet
    split
    · simp [Val.immutableF, hv]
    · simp [Val.immutableF, ih]

/-- `set_with_clauses`: same class, and immutable when receiver and argument are -/
theorem setWithClauses_spec (self w r : Val) (h : setWithClauses self w = .ok r) :
    clsOf r = clsOf self ∧ (Val.immutable self = true → Val.immutable w = true → Val.immutable r = true) := by
  unfold setWithClauses at h
  split at h
  · split at h
    · injection h with h
      subst h
      refine ⟨rfl, ?_⟩
      intro hs hw
      simp only [Val.immutable] at hs ⊢
      exact immutableF_dictSet _ _ _ hs hw
    · cases h
  · cases h

/-- `set_table_name`: same class, and immutable when receiver and argument are -/
theorem setTableName_spec (self t r : Val) (h : setTableName self t = .ok r) :
    clsOf r = clsOf self ∧ (Val.immutable self = true → Val.immutable t = true → Val.immutable r = true) := by
  unfold setTableName at h
  split at h
  · split at h
    · injection h with h
      subst h
      refine ⟨rfl, ?_⟩
      intro hs hw
      simp only [Val.immutable] at hs ⊢
      exact immutableF_dictSet _ _ _ hs hw
    · cases h
  · cases h

theorem immutableL_append (xs : List Val) (c : Val) (hx : Val.immutableL xs = true) (hc : Val.immutable c = true) :
    Val.immutableL (xs ++ [c]) = true := by
  induction xs with
  | nil => simp [Val.immutableL, hc]
  | cons x r ih =>
    simp only [Val.immutableL, Bool.and_eq_true] at hx
    simp [Val.immutableL, hx.1, ih hx.2]

/-- `append_column` / `append_partition_by_column` on an immutable receiver: same class, the receiver is left as it was, the
result is immutable -/
theorem appendTo_spec (field : String) (self col r self' : Val) (h : appendTo field self col = .ok (r, self'))
    (hs : Val.immutable self = true) (hc : Val.immutable col = true) :
    clsOf r = clsOf self ∧ self' = self ∧ Val.immutable r = true := by
  unfold appendTo at h
  split at h
  · rename_i cls fs
    split at h
    · simp only [Val.immutable] at hs
      split at h
      · rename_i xs hg
        injection h with h
        injection h with h1 h2
        subst h1; subst h2
        refine ⟨rfl, rfl, ?_⟩
        have hx := immutable_dictGet _ _ _ hs hg
        simp only [Val.immutable] at hx ⊢
        exact immutableF_dictSet _ _ _ hs (by simp only [Val.immutable]; exact immutableL_append _ _ hx hc)
      · rename_i xs hg
        have hx := immutable_dictGet _ _ _ hs hg
        simp [Val.immutable] at hx
      · cases h
    · cases h
  · cases h

theorem appendColumn_spec (self col r self' : Val) (h : appendColumn self col = .ok (r, self'))
    (hs : Val.immutable self = true) (hc : Val.immutable col = true) :
    clsOf r = clsOf self ∧ self' = self ∧ Val.immutable r = true := appendTo_spec _ _ _ _ _ h hs hc

theorem appendPartitionByColumn_spec (self col r self' : Val) (h : appendPartitionByColumn self col = .ok (r, self'))
    (hs : Val.immutable self = true) (hc : Val.immutable col = true) :
    clsOf r = clsOf self ∧ self' = self ∧ Val.immutable r = true := appendTo_spec _ _ _ _ _ h hs hc

/-- `change_type` keeps the class … -/
theorem changeTypeWith_cls (mk : List Val → Val) (self r : Val) (hm : List (String × String)) (rp : Bool)
    (h : changeTypeWith mk self hm rp = .ok r) : clsOf r = clsOf self := by
  unfold changeTypeWith at h
  split at h
  · split at h
    · split at h
      · split at h
        · cases h
        · injection h with h; subst h; rfl
      · split at h
        · cases h
        · injection h with h; subst h; rfl
      · cases h
    · cases h
  · cases h

theorem changeColumn_immutable (hm : List (String × String)) (rp : Bool) (old new : Val) (ho : Val.immutable old = true)
    (h : changeColumn hm rp old = .ok new) : Val.immutable new = true := by
  unfold changeColumn at h
  split at h
  · rename_i ccls cfs
    simp only [Val.immutable] at ho
    split at h
    · rename_i tcls tfs hct
      have ht := immutable_dictGet _ _ _ ho hct
      simp only [Val.immutable] at ht
      split at h
      · split at h
        · cases h
        · injection h with h; subst h
          simp only [Val.immutable]
          apply immutableF_dictSet _ _ _ ho
          cases rp with
          | true => simp [Val.immutable, Val.immutableF]
          | false =>
            cases hp : dictGet tfs "params" with
            | none => simp [Val.immutable, Val.immutableF]
            | some pv =>
              have := immutable_dictGet _ _ _ ht hp
              simp [Val.immutable, Val.immutableF, this]
      · cases h
    · cases h
  · cases h

theorem changeColumns_immutable (hm : List (String × String)) (rp : Bool) :
    ∀ (cols new : List Val), Val.immutableL cols = true → changeColumns hm rp cols = .ok new → Val.immutableL new = true
  | [], new, _, h => by
    simp only [changeColumns] at h
    injection h with h; subst h; rfl
  | c :: r, new, hc, h => by
    simp only [Val.immutableL, Bool.and_eq_true] at hc
    unfold changeColumns at h
    split at h
    · cases h
    · rename_i c' hc'
      split at h
      · cases h
      · rename_i r' hr'
        injection h with h; subst h
        simp [Val.immutableL, changeColumn_immutable hm rp c c' hc.1 hc', changeColumns_immutable hm rp r r' hc.2 hr']

/-- `change_type` (every map, both values of `remove_param`): the result of an immutable receiver is immutable -/
theorem changeType_immutable (self r : Val) (hm : List (String × String)) (rp : Bool)
    (hs : Val.immutable self = true) (h : changeType self hm rp = .ok r) : Val.immutable r = true := by
  unfold changeType changeTypeWith at h
  split at h
  · rename_i cls fs
    simp only [Val.immutable] at hs
    split at h
    · split at h
      · rename_i cols hg
        have hx := immutable_dictGet _ _ _ hs hg
        simp only [Val.immutable] at hx
        split at h
        · cases h
        · rename_i cols' hc'
          injection h with h; subst h
          simp only [Val.immutable]
          exact immutableF_dictSet _ _ _ hs (by simp only [Val.immutable]; exact changeColumns_immutable hm rp _ _ hx hc')
      · rename_i cols hg
        have hx := immutable_dictGet _ _ _ hs hg
        simp [Val.immutable] at hx
      · cases h
    · cases h
  · cases h

/-! ### witnesses on a parsed table -/

/-- the parsed statement `CREATE TABLE t (a INT(11), b VARCHAR(8) COMMENT 'x')` -/
def sample : Val :=
  match PM.parseStatementsText .MYSQL "CREATE TABLE t (a INT(11), b VARCHAR(8) COMMENT 'x')".toList with
  | .ok [s] => s.toVal
  | _ => .none

def zCol : Val := (DefCol.toVal { name := "z", type := ⟨"BIGINT", none⟩ })

/-- `append_column` after `change_type`: the receiver (the result of `change_type`) is left as it was and the result is immutable —
for every immutable table, every map and every column -/
theorem append_after_change_type (self c col r c' : Val) (hm : List (String × String)) (rp : Bool)
    (hs : Val.immutable self = true) (hcol : Val.immutable col = true)
    (h1 : changeType self hm rp = .ok c) (h2 : appendColumn c col = .ok (r, c')) :
    c' = c ∧ Val.immutable r = true ∧ clsOf r = clsOf self := by
  have hc := changeType_immutable self c hm rp hs h1
  obtain ⟨e1, e2, e3⟩ := appendColumn_spec c col r c' h2 hc hcol
  exact ⟨e2, e3, by rw [e1, changeTypeWith_cls _ self c hm rp h1]⟩

/-- regression example for F-C11-1 (fixed in /repo 0d6c89d): `change_type(HASHMAP_MYSQL_TO_HIVE)` on the parsed sample gives an
immutable, well-shaped statement (no list at `columns`) -/
theorem regress_change_type_hashable :
    (match changeType sample Gen.mysqlToHive true with
     | .ok r => clsOf r == some "ASTCreateTableStatement" && Val.immutable r && firstList r == none && Val.wellShaped Gen.fieldsOf r
     | .error _ => false) = true := by decide +kernel

/-- regression example for F-C11-2 (fixed in /repo 0d6c89d): `append_column` on a result of `change_type` leaves it with its two columns -/
theorem regress_append_keeps_receiver :
    (match changeType sample Gen.mysqlToHive true with
     | .ok c =>
       (match appendColumn c zCol with
        | .ok (r, c') => Drv.showVal c' == Drv.showVal c && Drv.showVal r != Drv.showVal c && Val.immutable r
        | .error _ => false)
     | .error _ => false) = true := by decide +kernel

/-- non-vacuity of `appendColumn_spec` / `setTableName_spec`: on the parsed (immutable) sample the helpers succeed -/
example : (match appendColumn sample zCol with | .ok (r, s') => Val.immutable r && Drv.showVal s' == Drv.showVal sample | .error _ => false) = true := by
  decide +kernel
example : (match setTableName sample (tableNameVal (some "db") "u") with | .ok r => Val.immutable r | .error _ => false) = true := by
  decide +kernel

end C11
