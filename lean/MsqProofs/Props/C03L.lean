import MsqProofs.Lemmas.LexLinkSelectMirror
import MsqProofs.Lemmas.LexLinkSelectHive
import MsqProofs.Props.C03T
import MsqProofs.Props.C01T
/-!
# C03 / C01 at TEXT level: the lexer link for the single SELECT

`C03T.lean` proves T-parse for the single SELECT on TOKENS (`C03.tselect`: every clause of the rendering `TS.toksS d s` lands in
its slot).  Here the link to TEXT is proved on the shipped (regenerated) lexer table, for the WHOLE fragment `TS.FragS` — select
items with aliases, `DISTINCT`, several tables with aliases, JOINs of every type of `Gen.joinTypes` with `ON`, `WHERE`,
`GROUP BY`, `HAVING`, `ORDER BY … [DESC]`, `LIMIT n` / `LIMIT m, n` — and every dialect:

* `C03.lex_prS` : the SELECT printer succeeds, its text is `prSL d s` (clauses on separate LINES), and lexing it gives exactly
  `toksS d s`;  `C03.lex_prS_in_context` : the same inside any text, between tokens, before a delimiter, under any bracket nesting
  (so also for a SELECT in brackets);
* `C03.tselect_text` : text → dialect pre-pass → lexer → parser gives exactly `s`, nothing left — through `pSingle`, through
  `pStatement`, and through the model of the public entry point `parse_statements(text, dialect)` (`PM.parseStatementsText`),
  which returns `[SELECT s]`: every clause of the TEXT in its slot;
* `C01.select_round_trip_text` : print ∘ parse ∘ print = print for the SELECT fragment.

**Hypotheses** besides `TS.FragS d s` (`LexLink.LeafS d s`; none assumes the link): `LexLink.Leaf` on every expression (column
names printed back-quoted verbatim, literal payloads the lexer reads back as one token — see `Props/C01T.lean`); aliases that are
plain names and no word of the keyword table (`aliasLex`: exactly the hypothesis of `TS.aliasOK_of_plain`); table names free of
back-quotes and of TAB / CR / U+3000 (`nameLex`: true of every plain name).  LIMIT arguments need nothing beyond `FragS`
(`0 ≤ n`: their decimal text is a digit string, `LexLink.toString_nonneg`).  The dialect pre-pass as in `C01T.lean`: the
identity for five dialects (`C01.dialectPre_id`); for HIVE it holds whenever no column name, literal payload or table name
contains `==` (`C03.hive_pre_select`: the printer itself never writes `==`); for DB2 the hypothesis
`PM.dialectPre d text = text` (whole-text replacement of `CURRENT DATE` …, finding F-C06-1).
-/
set_option linter.unusedVariables false
set_option linter.unusedSimpArgs false
open Lex PM Ast TP TS LexLink

namespace C03

/-- **C03.lex_prS**: the printer succeeds on every fragment SELECT with lexable leaves, prints `prSL d s`, and lexing the text
gives exactly the token rendering `toksS d s`. -/
theorem lex_prS (d : Gen.D) (s : Select) (hs : FragS d s = true) (hl : LeafS d s) :
    ∃ str : String, PR.prS d s = .ok str ∧ str.toList = prSL d s ∧ Lex.lex Gen.cfgS str.toList = .ok (toksS d s) := by
  refine ⟨String.ofList (prSL d s), prS_text d s hs hl, String.toList_ofList, ?_⟩
  rw [String.toList_ofList, Lex.lex_plain _ _ (fun c hc => (List.all_eq_true.mp (plain_prSL d s hs hl)) c hc)]
  exact C01.lexText_of_lx (lx_prS d s hs hl)

/-- the link in context: inside any text, between tokens, before a delimiter (end of text, blank, `)`, `,`, line break), with any
current frame and frame stack -/
theorem lex_prS_in_context (d : Gen.D) (s : Select) (hs : FragS d s = true) (hl : LeafS d s) : Lx (prSL d s) (toksS d s) :=
  lx_prS d s hs hl

theorem moveStr_nil : (moveStr [] ";").2 = [] := by
  simp [moveStr, searchStr]

/-- **C03.tselect_text**: T-parse of the single SELECT at TEXT level. -/
theorem tselect_text (d : Gen.D) (s : Select) (hs : FragS d s = true) (hl : LeafS d s)
    (hpre : dialectPre d (prSL d s) = prSL d s) :
    ∃ (str : String) (ts : List Tok), PR.prS d s = .ok str ∧
      Lex.lex Gen.cfgS (dialectPre d str.toList) = .ok ts ∧
      pSingle d (fuelFor ts) [] ts = .ok (s, []) ∧
      pStatement d (fuelFor ts) ts = .ok (.select (.single s), []) ∧
      parseStatementsText d str.toList = .ok [.select (.single s)] := by
  obtain ⟨str, h1, h2, h3⟩ := lex_prS d s hs hl
  have hlex : Lex.lex Gen.cfgS (dialectPre d str.toList) = .ok (toksS d s) := by rw [h2, hpre, ← h2]; exact h3
  have hp1 : pSingle d (fuelFor (toksS d s)) [] (toksS d s) = .ok (s, []) := by
    have := tselect_entry_fuel d s hs [] rfl
    simpa using this
  have hp2 : pStatement d (fuelFor (toksS d s)) (toksS d s) = .ok (.select (.single s), []) := by
    have := tselect_statement d s hs [] rfl rfl (fuelFor (toksS d s)) (by simp only [fuelFor]; omega)
    simpa using this
  refine ⟨str, toksS d s, h1, hlex, hp1, hp2, ?_⟩
  obtain ⟨x, hx⟩ := toksS_head d s hs
  unfold parseStatementsText
  simp only [hlex, pStatements]
  have hlen : (toksS d s).length + 1 = ((toksS d s).length - 1) + 1 + 1 := by rw [hx]; simp
  rw [hlen, statementsLoop]
  have hne : (toksS d s).isEmpty = false := by rw [hx]; rfl
  simp only [hne, Bool.false_eq_true, if_false, hp2, List.nil_append, moveStr_nil]
  rw [statementsLoop]
  simp

/-- for HIVE the pre-pass hypothesis holds whenever no column name, literal payload or table name contains `==` -/
theorem hive_pre_select (s : Select) (hs : FragS .HIVE s = true) (hl : LeafS .HIVE s) (hq : noEqEqS s) :
    dialectPre .HIVE (prSL .HIVE s) = prSL .HIVE s := LexLink.hive_pre_select s hs hl hq

end C03

namespace C01

/-- **C01.select_round_trip_text**: print, then the text pipeline (dialect pre-pass, lexer, parser), gives the SELECT back; and
printing what was parsed gives the same text again. -/
theorem select_round_trip_text (d : Gen.D) (s : Select) (hs : FragS d s = true) (hl : LeafS d s)
    (hpre : dialectPre d (prSL d s) = prSL d s) :
    ∃ (str : String) (ts : List Tok), PR.prS d s = .ok str ∧ Lex.lex Gen.cfgS (dialectPre d str.toList) = .ok ts ∧
      pSingle d (fuelFor ts) [] ts = .ok (s, []) ∧
      (∀ s', pSingle d (fuelFor ts) [] ts = .ok (s', []) → PR.prS d s' = .ok str) := by
  obtain ⟨str, ts, h1, h2, h3, _, _⟩ := C03.tselect_text d s hs hl hpre
  refine ⟨str, ts, h1, h2, h3, ?_⟩
  intro s' hs'
  rw [h3] at hs'
  simp only [Except.ok.injEq, Prod.mk.injEq, and_true] at hs'
  rw [← hs']; exact h1

end C01

/-! ## a decidable form of the leaf hypotheses, and non-vacuity -/
namespace C03

def aliasLexB (a : String) : Bool := PR.isPlainName a && !(Gen.wordMarks.any (·.1.toList == Gen.pyUpper a.toList))
def optAliasLexB : Option String → Bool | none => true | some a => aliasLexB a
def nameLexB (n : String) : Bool := n.toList.all fun x => x != '`' && C05.plain x
def tableLexB : FromTable → Bool | .mk t a => nameLexB (tblName t) && optAliasLexB a
def leafSB (d : Gen.D) : Select → Bool
  | .mk _ _ cols fr _ js wh gb hv ob _ _ _ _ =>
    cols.all (fun c => C01.leafB d c.1 && optAliasLexB c.2) &&
    (match fr with | some l => l.all tableLexB | none => true) &&
    js.all (fun j => match j with
      | .mk _ t rule => tableLexB t && (match rule with | some (.on e) => C01.leafB d e | _ => true)) &&
    (match wh with | some e => C01.leafB d e | none => true) &&
    (match gb with | some (.mk cs _ _ _) => cs.all (C01.leafB d) | none => true) &&
    (match hv with | some e => C01.leafB d e | none => true) &&
    (match ob with | some l => l.all (fun o => match o with | .mk e _ _ _ => C01.leafB d e) | none => true)

theorem leafE (d : Gen.D) (e : Expr) (h : C01.leafB d e = true) : Leaf d e := C01.leaf_of_B d _ e (Nat.le_refl _) h

theorem aliasLex_of_B (a : String) (h : aliasLexB a = true) : aliasLex a := by
  simp only [aliasLexB, Bool.and_eq_true, Bool.not_eq_eq_eq_not, Bool.not_true] at h
  refine ⟨h.1, ?_⟩
  have hf : (fun e : String × Nat => e.1 == Gen.pyUpperS a) = (fun e => e.1.toList == Gen.pyUpper a.toList) := by
    funext e; simp only [Gen.pyUpperS, beq_ofList]
  rw [hf]; exact h.2

theorem optAliasLex_of_B (a : Option String) (h : optAliasLexB a = true) : optAliasLex a := by
  cases a with
  | none => trivial
  | some a => exact aliasLex_of_B a h

theorem tableLex_of_B (t : FromTable) (h : tableLexB t = true) : tableLex t := by
  obtain ⟨r, a⟩ := t
  simp only [tableLexB, nameLexB, Bool.and_eq_true, List.all_eq_true, bne_iff_ne, ne_eq] at h
  exact ⟨fun x hx => h.1 x hx, optAliasLex_of_B a h.2⟩

theorem leafS_of_B (d : Gen.D) (s : Select) (h : leafSB d s = true) : LeafS d s := by
  obtain ⟨ws, dist, cols, fr, lats, js, wh, gb, hv, ob, sb, db, cb, lm⟩ := s
  simp only [leafSB, Bool.and_eq_true, List.all_eq_true] at h
  obtain ⟨⟨⟨⟨⟨⟨h1, h2⟩, h3⟩, h4⟩, h5⟩, h6⟩, h7⟩ := h
  refine ⟨fun c hc => ⟨leafE d _ (h1 c hc).1, optAliasLex_of_B _ (h1 c hc).2⟩, ?_, ?_, ?_, ?_, ?_, ?_⟩
  · intro l hl t ht
    subst hl
    simp only [List.all_eq_true] at h2
    exact tableLex_of_B t (h2 t ht)
  · intro j hj
    obtain ⟨ty, t, rule⟩ := j
    have := h3 _ hj
    simp only [Bool.and_eq_true] at this
    refine ⟨tableLex_of_B t this.1, ?_⟩
    cases rule with
    | none => trivial
    | some r => cases r with
      | on e => exact leafE d e this.2
      | «using» u => trivial
  · cases wh with
    | none => trivial
    | some e => exact leafE d e h4
  · cases gb with
    | none => trivial
    | some g =>
      obtain ⟨cs, a, b, c⟩ := g
      simp only [List.all_eq_true] at h5
      exact fun e he => leafE d e (h5 e he)
  · cases hv with
    | none => trivial
    | some e => exact leafE d e h6
  · cases ob with
    | none => trivial
    | some l =>
      simp only [List.all_eq_true] at h7
      intro o ho
      obtain ⟨e, a, b, c⟩ := o
      exact leafE d e (h7 _ ho)

-- non-vacuity (compiled evaluation): the concrete SELECTs of `C03T.lean`, all seven dialects; the mirror is the printer's text
#guard [s1, s2, s3, s4, s5].all fun s => [Gen.D.MYSQL, .ORACLE, .POSTGRE_SQL, .SQL_SERVER, .DEFAULT, .HIVE].all fun d =>
  (!FragS d s) || (leafSB d s && (match PR.prS d s with | .ok x => x.toList == prSL d s | .error _ => false))
#guard [s2, s3].all fun s => FragS .MYSQL s && FragS .HIVE s && FragS .ORACLE s && FragS .DEFAULT s && FragS .POSTGRE_SQL s &&
  FragS .SQL_SERVER s && FragS .DB2 s
#guard [s1, s2, s3, s4, s5].all fun s => FragS .MYSQL s && leafSB .MYSQL s && agrees .MYSQL s
#guard [s1, s2, s3, s4, s5].all fun s => [Gen.D.HIVE, .DB2].all fun d =>
  (match PR.prS d s with | .ok x => dialectPre d x.toList == x.toList | .error _ => true)
#guard (match PM.parseStatementsText .MYSQL (prSL .MYSQL s1) with
  | .ok [st] => Drv.showVal st.toVal == Drv.showVal (Stmt.select (.single s1)).toVal | _ => false)
-- aliases beginning with b / x, one-letter aliases, LIMIT with offset
#guard aliasLexB "b" && aliasLexB "x1" && aliasLexB "Bar" && !aliasLexB "from" && !aliasLexB "a b" && nameLexB "t" && !nameLexB "a`b"

/-- instances of the theorem, hypotheses decided by the kernel: MYSQL and ORACLE (the kernel does not evaluate `toString` on
integers, so the kernel-checked instances have no LIMIT; `s1`, `s3` are evaluated by the `#guard`s above) -/
example : ∃ str ts, PR.prS .MYSQL s5 = .ok str ∧ Lex.lex Gen.cfgS (dialectPre .MYSQL str.toList) = .ok ts ∧
    pSingle .MYSQL (fuelFor ts) [] ts = .ok (s5, []) ∧ pStatement .MYSQL (fuelFor ts) ts = .ok (.select (.single s5), []) ∧
    parseStatementsText .MYSQL str.toList = .ok [.select (.single s5)] :=
  tselect_text .MYSQL s5 (by decide) (leafS_of_B _ _ (by decide +kernel)) (C01.dialectPre_id _ (by decide) (by decide) _)
example : ∃ str ts, PR.prS .ORACLE s2 = .ok str ∧ Lex.lex Gen.cfgS (dialectPre .ORACLE str.toList) = .ok ts ∧
    pSingle .ORACLE (fuelFor ts) [] ts = .ok (s2, []) ∧ (∀ s', pSingle .ORACLE (fuelFor ts) [] ts = .ok (s', []) → PR.prS .ORACLE s' = .ok str) :=
  C01.select_round_trip_text .ORACLE s2 (by decide) (leafS_of_B _ _ (by decide +kernel))
    (C01.dialectPre_id _ (by decide) (by decide) _)

/-- an instance for HIVE: the pre-pass hypothesis is discharged by `hive_pre_select` -/
example : ∃ str ts, PR.prS .HIVE s2 = .ok str ∧ Lex.lex Gen.cfgS (dialectPre .HIVE str.toList) = .ok ts ∧
    pSingle .HIVE (fuelFor ts) [] ts = .ok (s2, []) ∧ pStatement .HIVE (fuelFor ts) ts = .ok (.select (.single s2), []) ∧
    parseStatementsText .HIVE str.toList = .ok [.select (.single s2)] :=
  tselect_text .HIVE s2 (by decide) (leafS_of_B _ _ (by decide +kernel))
    (hive_pre_select s2 (by decide) (leafS_of_B _ _ (by decide +kernel)) (by
      show (∀ c ∈ [(lit "1", (none : Option String))], C01.noEqEq c.1) ∧ (∀ l, (none : Option (List FromTable)) = some l → _) ∧
        (∀ j ∈ ([] : List Join), _) ∧ True ∧ True ∧ True ∧ True
      refine ⟨?_, ?_, ?_, trivial, trivial, trivial, trivial⟩
      · intro c hc
        simp only [List.mem_singleton] at hc
        subst hc
        show C01.occ "1".toList = false
        decide
      · intro l h; cases h
      · intro j h; cases h))

end C03
