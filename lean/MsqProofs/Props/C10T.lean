import MsqProofs.Lemmas.LexScript
import MsqProofs.Lemmas.LexScriptPre
import MsqProofs.Props.C04b
import MsqProofs.Props.C10
/-!
# C10 at TEXT level — the lexer half, and the composition with `C10.script_concat`

No fragment restriction: every theorem is about ALL texts.

**Lexer half** (all 8 option settings `C04.cfgOf i`, on the regenerated tables).

* `C10.lex_script`: if `t1` is accepted with tokens `ts1` and does not END OPEN, then for EVERY `t2`
  `lex (t1 ++ ";" ++ t2) = (lex t2).map (ts1 ++ [;] ++ ·)`: the script lexes to the tokens of `t1`, the separator token
  `Tok.single [';'] 0`, the tokens of `t2` — and is rejected, with the same error, exactly when `t2` is
  (`lex_script_accepted_iff`).  `lex_script_list`: the n-ary version.
* `EndsOpen cfg t1`: the state at the end of `t1` is in `openStates cfg ';'`.  The open states are FOUND by the table:
  `openStates cfg c` is the list of states whose END cell does not raise but whose `c` cell does not end what is pending
  exactly as the END cell does (`closesWith`); `open_states`: for all 8 settings this list is `[IN_EXPLAIN_1]` for `;`
  (and for a blank), and EMPTY for a line break (`open_states_newline`).  So the only exception is a text that ends inside
  a line comment (`-- …` / `# …`), where END is accepted but `;` is comment text.
* `ends_open_iff_scanner`: on an accepted text, `EndsOpen` says exactly that the structural scanner of C04b
  (`Scan.scanAll`, which knows only quotes, comments, brackets and token ends) ends in line-comment mode.
  `not_open_of_newline`: a text that ends with a line break never ends open.
* `line_comment_swallows`: the witness — `SELECT 1 -- c;SELECT 2` is ONE statement (the tokens of `SELECT 1`).

**Composition** (shipped setting `Gen.cfgS`, the one `parse_statements` uses): `C10.script_text` — for texts `t1 … tn`,
each accepted alone as ONE statement by the model of `parse_statements` (`lex` succeeds, `pStatement` consumes all tokens)
and not ending open, the model of `parse_statements` on `t1 sep1 t2 sep2 … tn sepn` (each `sep` = blanks and line breaks
around one `;`; the last one may also be only blanks, or empty) returns exactly the statements of the parts, in order.
A part MAY end open if its separator begins with a line break (a line break closes a line comment: `open_states_newline`).
The pre-passes (the dialect's whole-text replacements and the lexer's CR LF / TAB / U+3000 replacements) act on the
script as a whole; that they commute with cutting it at the separators is the hypothesis `hprep`, PROVED (`prep_script`,
`script_text_std`) for every dialect except DB2 (whose patterns `CURRENT DATE` … contain a blank) when no part ends with
a CR; for DB2 it is a decidable equation on each concrete script (instance at the end).

`MsqProofs/Lemmas/LexScriptPrinted.lean` continues: printed fragment expressions / SELECTs never end open
(`C10.printed_select_not_open`), and a script of printed SELECTs parses back to the SELECTs (`C10.script_printed`).

Machinery: `MsqProofs/Lemmas/LexScript.lean` (`PfxRel` — a simulation between two runs that differ by tokens in front of
the bottom frame —, `closesWith`, `sepToks`, the generic separator theorem `Lex.lexText_sep`),
`MsqProofs/Lemmas/LexScriptPre.lean` (`str.replace` and cutting a text at a character).
-/
namespace C10
open Lex PM Ast

abbrev cfgOf := C04.cfgOf

/-! ## per-setting facts -/

theorem code_eq (i : Fin 8) : (cfgOf i).code = Gen.Cls.code := by
  match i with
  | 0 => rfl | 1 => rfl | 2 => rfl | 3 => rfl | 4 => rfl | 5 => rfl | 6 => rfl | 7 => rfl

theorem chain_eq (i : Fin 8) : (cfgOf i).preChain = Gen.preChain := by
  match i with
  | 0 => rfl | 1 => rfl | 2 => rfl | 3 => rfl | 4 => rfl | 5 => rfl | 6 => rfl | 7 => rfl

theorem tableOK (i : Fin 8) : ∃ (advSt : List S) (wk : S → WK), TableOK (cfgOf i) advSt wk = true := by
  match i with
  | 0 => exact ⟨_, _, Oblig.tableOK_cfg0⟩ | 1 => exact ⟨_, _, Oblig.tableOK_cfg1⟩
  | 2 => exact ⟨_, _, Oblig.tableOK_cfg2⟩ | 3 => exact ⟨_, _, Oblig.tableOK_cfg3⟩
  | 4 => exact ⟨_, _, Oblig.tableOK_cfg4⟩ | 5 => exact ⟨_, _, Oblig.tableOK_cfg5⟩
  | 6 => exact ⟨_, _, Oblig.tableOK_cfg6⟩ | 7 => exact ⟨_, _, Oblig.tableOK_cfg7⟩

/-- the separator theorem for the 8 settings (after the lexer's pre-pass) -/
theorem lexText_sep_all (i : Fin 8) (u1 u2 : List Char) (c : Char) (ts1 tc : List Tok)
    (h1 : lexText (cfgOf i) u1 = .ok ts1) (hcl : closesWith (cfgOf i) c (endState (cfgOf i) u1) = true)
    (hs : sepToks (cfgOf i) c = some tc) :
    lexText (cfgOf i) (u1 ++ c :: u2) = (lexText (cfgOf i) u2).map (fun ts2 => ts1 ++ tc ++ ts2) := by
  obtain ⟨advSt, wk, hT⟩ := tableOK i
  exact lexText_sep (code_eq i) (C04.summarizable i) hT (C04.depth_le i) u1 u2 c ts1 tc h1 hcl hs

/-! ## the open states, found by the table -/

/-- the END cell of `s` exists and is not the raising one: a text may end in `s` -/
def endAccepting (cfg : Cfg Gen.Cls) (s : S) : Bool :=
  match cfg.lookup s .eof with | some o => o != Spec.reject | none => false

/-- the states in which a text may end, but in which `c` does not end the pending token the way the end of the text does -/
def openStates (cfg : Cfg Gen.Cls) (c : Char) : List S :=
  allS.filter fun s => endAccepting cfg s && !closesWith cfg c s

/-- **the table obligation**: under every setting, a text may end in 20 states, and in all of them but one `;` ends the
pending token exactly as the end of the text does.  The exception is the line comment. -/
theorem open_states (i : Fin 8) : openStates (cfgOf i) ';' = [.IN_EXPLAIN_1] := by
  match i with
  | 0 => decide +kernel | 1 => decide +kernel | 2 => decide +kernel | 3 => decide +kernel
  | 4 => decide +kernel | 5 => decide +kernel | 6 => decide +kernel | 7 => decide +kernel

/-- a blank behaves like `;` … -/
theorem open_states_blank (i : Fin 8) : openStates (cfgOf i) ' ' = [.IN_EXPLAIN_1] := by
  match i with
  | 0 => decide +kernel | 1 => decide +kernel | 2 => decide +kernel | 3 => decide +kernel
  | 4 => decide +kernel | 5 => decide +kernel | 6 => decide +kernel | 7 => decide +kernel

/-- … and a line break closes everything the end of the text closes -/
theorem open_states_newline (i : Fin 8) : openStates (cfgOf i) '\n' = [] := by
  match i with
  | 0 => decide +kernel | 1 => decide +kernel | 2 => decide +kernel | 3 => decide +kernel
  | 4 => decide +kernel | 5 => decide +kernel | 6 => decide +kernel | 7 => decide +kernel

/-- the separator as the lexer emits it: under every setting, a `;` between tokens is the token `Tok.single [';'] 0` -/
theorem sep_semi_mark (i : Fin 8) : sepMark (cfgOf i) ';' = some (some 0) := by
  match i with
  | 0 => decide +kernel | 1 => decide +kernel | 2 => decide +kernel | 3 => decide +kernel
  | 4 => decide +kernel | 5 => decide +kernel | 6 => decide +kernel | 7 => decide +kernel

theorem sep_semi (i : Fin 8) : sepToks (cfgOf i) ';' = some [semi0] := sepToks_of_mark (sep_semi_mark i)

/-- **`t` ends open**: at the end of `t` the lexer is in a state where the end of the text is accepted but `;` does not
end the token the same way -/
def EndsOpen (cfg : Cfg Gen.Cls) (t : List Char) : Bool := (openStates cfg ';').contains (endState cfg (cfg.pre t))

theorem endsOpen_eq (i : Fin 8) (t : List Char) :
    EndsOpen (cfgOf i) t = (endState (cfgOf i) ((cfgOf i).pre t) == .IN_EXPLAIN_1) := by
  simp only [EndsOpen, open_states]
  cases endState (cfgOf i) ((cfgOf i).pre t) <;> rfl

/-- an accepted text ends in a state whose END cell does not raise -/
theorem accepted_endAccepting (i : Fin 8) (u : List Char) (ts : List Tok) (h : lexText (cfgOf i) u = .ok ts) :
    endAccepting (cfgOf i) (endState (cfgOf i) u) = true := by
  simp only [lexText] at h
  cases e1 : feedAllWith (handle (cfgOf i) u) u {} with
  | error x => rw [e1] at h; cases h
  | ok m1 =>
    rw [e1] at h
    simp only at h
    have hst : m1.status = endState (cfgOf i) u := (feedAllWith_skel (cfgOf i) (C04.summarizable i) u u {} m1 e1 (by simp)).1
    rw [← hst]
    simp only [endAccepting]
    cases ho : (cfgOf i).lookup m1.status .eof with
    | none => simp [handle, ho] at h
    | some o =>
      by_cases hr : o = Spec.reject
      · rw [handle_reject (code_eq i) (by rw [ho, hr])] at h; cases h
      · simpa using hr

theorem closes_of_not_open (i : Fin 8) (c : Char) (u : List Char) (ts : List Tok) (h : lexText (cfgOf i) u = .ok ts)
    (hno : endState (cfgOf i) u ∉ openStates (cfgOf i) c) : closesWith (cfgOf i) c (endState (cfgOf i) u) = true := by
  have ha := accepted_endAccepting i u ts h
  cases hc : closesWith (cfgOf i) c (endState (cfgOf i) u) with
  | true => rfl
  | false =>
    exfalso; apply hno
    simp only [openStates, List.mem_filter]
    exact ⟨mem_allS _, by simp [ha, hc]⟩

/-! ## `C10.lex_script` -/

/-- **C10.lex_script** (all 8 settings, all texts): an accepted text that does not end open, `;`, any text -/
theorem lex_script (i : Fin 8) (t1 t2 : List Char) (ts1 : List Tok) (h1 : lex (cfgOf i) t1 = .ok ts1)
    (hopen : EndsOpen (cfgOf i) t1 = false) :
    lex (cfgOf i) (t1 ++ ';' :: t2) = (lex (cfgOf i) t2).map (fun ts2 => ts1 ++ semi0 :: ts2) := by
  rw [lex_eq_lexText] at h1
  rw [lex_eq_lexText, lex_eq_lexText]
  have hpre : (cfgOf i).pre (t1 ++ ';' :: t2) = (cfgOf i).pre t1 ++ ';' :: (cfgOf i).pre t2 := by
    simp only [Cfg.pre, chain_eq]
    exact preWith_sep ';' Gen.preChain (by decide) t1 t2
  rw [hpre]
  have hno : endState (cfgOf i) ((cfgOf i).pre t1) ∉ openStates (cfgOf i) ';' := by
    intro hm
    have : EndsOpen (cfgOf i) t1 = true := by simpa [EndsOpen] using hm
    rw [this] at hopen; cases hopen
  rw [lexText_sep_all i _ _ ';' ts1 [semi0] h1 (closes_of_not_open i ';' _ ts1 h1 hno) (sep_semi i)]
  cases lexText (cfgOf i) ((cfgOf i).pre t2) <;> simp [Except.map]

/-- the same on strings -/
theorem lex_script_str (i : Fin 8) (t1 t2 : String) (ts1 : List Tok) (h1 : lex (cfgOf i) t1.toList = .ok ts1)
    (hopen : EndsOpen (cfgOf i) t1.toList = false) :
    lex (cfgOf i) (t1 ++ ";" ++ t2).toList = (lex (cfgOf i) t2.toList).map (fun ts2 => ts1 ++ semi0 :: ts2) := by
  have : (t1 ++ ";" ++ t2).toList = t1.toList ++ ';' :: t2.toList := by
    simp [String.toList_append]
  rw [this]; exact lex_script i _ _ ts1 h1 hopen

/-- both parts accepted: the tokens of the script -/
theorem lex_script_ok (i : Fin 8) (t1 t2 : List Char) (ts1 ts2 : List Tok) (h1 : lex (cfgOf i) t1 = .ok ts1)
    (hopen : EndsOpen (cfgOf i) t1 = false) (h2 : lex (cfgOf i) t2 = .ok ts2) :
    lex (cfgOf i) (t1 ++ ';' :: t2) = .ok (ts1 ++ semi0 :: ts2) := by
  rw [lex_script i t1 t2 ts1 h1 hopen, h2]; rfl

/-- the script is rejected exactly when its second part is, with the same error -/
theorem lex_script_err (i : Fin 8) (t1 t2 : List Char) (ts1 : List Tok) (h1 : lex (cfgOf i) t1 = .ok ts1)
    (hopen : EndsOpen (cfgOf i) t1 = false) (e : Err) :
    lex (cfgOf i) (t1 ++ ';' :: t2) = .error e ↔ lex (cfgOf i) t2 = .error e := by
  rw [lex_script i t1 t2 ts1 h1 hopen]
  cases lex (cfgOf i) t2 <;> simp [Except.map]

theorem lex_script_accepted_iff (i : Fin 8) (t1 t2 : List Char) (ts1 : List Tok) (h1 : lex (cfgOf i) t1 = .ok ts1)
    (hopen : EndsOpen (cfgOf i) t1 = false) :
    (∃ ts, lex (cfgOf i) (t1 ++ ';' :: t2) = .ok ts) ↔ ∃ ts2, lex (cfgOf i) t2 = .ok ts2 := by
  rw [lex_script i t1 t2 ts1 h1 hopen]
  cases lex (cfgOf i) t2 <;> simp [Except.map]

/-- `t1;t2;…;tn` -/
def joinSemi : List (List Char) → List Char
  | [] => []
  | [t] => t
  | t :: t2 :: r => t ++ ';' :: joinSemi (t2 :: r)

/-- **n-ary version** (all 8 settings): texts accepted alone, none ending open (the last one may) -/
theorem lex_script_list (i : Fin 8) : ∀ (parts : List (List Char × List Tok)),
    (∀ p ∈ parts, lex (cfgOf i) p.1 = .ok p.2) → (∀ p ∈ parts.dropLast, EndsOpen (cfgOf i) p.1 = false) →
    lex (cfgOf i) (joinSemi (parts.map (·.1))) = .ok (script semi0 (parts.map (·.2)) false)
  | [], _, _ => by
    match i with
    | 0 => rfl | 1 => rfl | 2 => rfl | 3 => rfl | 4 => rfl | 5 => rfl | 6 => rfl | 7 => rfl
  | [p], h, _ => by simpa [joinSemi, script] using h p (by simp)
  | p :: q :: r, h, ho => by
    have ih := lex_script_list i (q :: r) (fun x hx => h x (by simp [hx]))
      (fun x hx => ho x (by simp only [List.dropLast_cons_cons]; exact List.mem_cons_of_mem _ hx))
    simp only [List.map_cons, joinSemi, script] at ih ⊢
    exact lex_script_ok i p.1 _ p.2 _ (h p (by simp)) (ho p (by simp)) ih

/-! ## what "ends open" means on the text -/

/-- on an accepted text, `EndsOpen` says exactly that the structural scanner of C04b — quotes, comments, brackets, token
ends; no table — ends in line-comment mode: the text ends inside a `-- …` or `# …` comment -/
theorem ends_open_iff_scanner (i : Fin 8) (t : List Char) (ts : List Tok) (h : lex (cfgOf i) t = .ok ts) :
    EndsOpen (cfgOf i) t = true ↔ (Scan.scanAll .N ((cfgOf i).pre t)).1 = .LC := by
  rw [lex_eq_lexText] at h
  simp only [lexText] at h
  cases e1 : feedAllWith (handle (cfgOf i) ((cfgOf i).pre t)) ((cfgOf i).pre t) {} with
  | error x => rw [e1] at h; cases h
  | ok m1 =>
    have hst : m1.status = endState (cfgOf i) ((cfgOf i).pre t) :=
      (feedAllWith_skel (cfgOf i) (C04.summarizable i) _ _ {} m1 e1 (by simp)).1
    have hsc := (Scan.feedAllWith_scan (cfgOf i) (C04.summarizable i) (C04.lookup_norm i) (C04.scanSim i) _ _ {} m1 .N e1
      (by simp) (by simp [Scan.rho])).1
    rw [endsOpen_eq, ← hst]
    constructor
    · intro hs
      have : m1.status = .IN_EXPLAIN_1 := by simpa using hs
      rw [this] at hsc
      simpa [Scan.rho] using hsc
    · intro hm
      rw [hm] at hsc
      revert hsc
      cases m1.status <;> simp [Scan.rho]

/-- a line break never leaves the lexer in a line comment -/
theorem newline_leaves (i : Fin 8) : allS.all (fun s => (traceFeed (cfgOf i) s '\n').1 != .IN_EXPLAIN_1) = true := by
  match i with
  | 0 => decide +kernel | 1 => decide +kernel | 2 => decide +kernel | 3 => decide +kernel
  | 4 => decide +kernel | 5 => decide +kernel | 6 => decide +kernel | 7 => decide +kernel

theorem trace_snoc {Cls : Type} (cfg : Cfg Cls) (c : Char) : ∀ (u : List Char) (s : S),
    (trace cfg s (u ++ [c])).1 = (traceFeed cfg (trace cfg s u).1 c).1
  | [], s => by simp [trace]
  | x :: u, s => by simp [trace, trace_snoc cfg c u]

/-- a text whose last character is a line break does not end open (CR LF is a line break as well: the pre-pass makes
it LF) -/
theorem not_open_of_newline (i : Fin 8) (t : List Char) (u : List Char) (h : (cfgOf i).pre t = u ++ ['\n']) :
    EndsOpen (cfgOf i) t = false := by
  rw [endsOpen_eq, h, endState, trace_snoc]
  have := (List.all_eq_true.mp (newline_leaves i)) (trace (cfgOf i) .WAIT u).1 (mem_allS _)
  simpa using this

/-! ## the witness: a text that ends open -/

theorem lexesTo_sound {r : Except Err (List Tok)} {ts : List Tok} (h : lexesTo r ts = true) : r = .ok ts := by
  cases r with
  | error e => cases h
  | ok xs => rw [eqbL_sound xs ts h]

/-- **the exception is real**: `SELECT 1 -- c` is accepted and ends open; with `;SELECT 2` behind it the text is still
ONE statement — exactly the tokens of `SELECT 1`, no separator token, nothing of `SELECT 2` -/
theorem line_comment_swallows :
    EndsOpen Gen.cfgS "SELECT 1 -- c".toList = true ∧
    lex Gen.cfgS "SELECT 1 -- c".toList = .ok [.single "SELECT".toList 0, .single ['1'] 72] ∧
    lex Gen.cfgS "SELECT 1 -- c;SELECT 2".toList = .ok [.single "SELECT".toList 0, .single ['1'] 72] ∧
    lex Gen.cfgS "SELECT 1 -- c\n;SELECT 2".toList =
      .ok [.single "SELECT".toList 0, .single ['1'] 72, semi0, .single "SELECT".toList 0, .single ['2'] 72] :=
  ⟨by decide +kernel, lexesTo_sound (by decide +kernel), lexesTo_sound (by decide +kernel),
    lexesTo_sound (by decide +kernel)⟩

/-! ## the script as text: separators with layout -/

/-- the lexer's view of a text handed to `parse_statements`: the dialect's replacements, then the lexer's own -/
def prep (d : Gen.D) (t : List Char) : List Char := Gen.cfgS.pre (dialectPre d t)

theorem parseStatementsText_eq (d : Gen.D) (t : List Char) :
    parseStatementsText d t =
      (match lexText Gen.cfgS (prep d t) with | .error e => .error e | .ok ts => pStatements d (fuelFor ts) ts) := rfl

/-- a character of a separator: `;`, blank, line break -/
def isSepChar (c : Char) : Bool := c == ';' || c == ' ' || c == '\n'

/-- the separator tokens of a run of separator characters: one per `;` -/
def semis : List Char → List Tok
  | [] => []
  | c :: r => if c = ';' then semi0 :: semis r else semis r

theorem semis_eq_replicate : ∀ sp, semis sp = List.replicate (semis sp).length semi0
  | [] => rfl
  | c :: r => by
    have := semis_eq_replicate r
    by_cases hc : c = ';'
    · simp only [semis, hc, if_true, List.length_cons, List.replicate_succ]; rw [← this]
    · simp only [semis, hc, if_false]; exact this

theorem sepchar_cases {c : Char} (h : isSepChar c = true) : c = ';' ∨ c = ' ' ∨ c = '\n' := by
  simpa [isSepChar, or_assoc] using h

theorem sep_blank_mark : sepMark Gen.cfgS ' ' = some none ∧ sepMark Gen.cfgS '\n' = some none := by decide +kernel

theorem wait_closes : closesWith Gen.cfgS ';' .WAIT = true ∧ closesWith Gen.cfgS ' ' .WAIT = true ∧
    closesWith Gen.cfgS '\n' .WAIT = true := by decide +kernel

/-- what a separator character leaves behind under the shipped setting -/
theorem sepToks_shipped {c : Char} (h : isSepChar c = true) : sepToks Gen.cfgS c = some (semis [c]) := by
  rcases sepchar_cases h with rfl | rfl | rfl
  · exact sep_semi 7
  · exact sepToks_of_mark sep_blank_mark.1
  · exact sepToks_of_mark sep_blank_mark.2

theorem semis_cons (c : Char) (r : List Char) : semis (c :: r) = semis [c] ++ semis r := by
  by_cases hc : c = ';' <;> simp [semis, hc]

/-! the facts above for the shipped setting, `Gen.cfgS = cfgOf 7` -/
theorem lexText_sep_shipped (u1 u2 : List Char) (c : Char) (ts1 tc : List Tok)
    (h1 : lexText Gen.cfgS u1 = .ok ts1) (hcl : closesWith Gen.cfgS c (endState Gen.cfgS u1) = true)
    (hs : sepToks Gen.cfgS c = some tc) :
    lexText Gen.cfgS (u1 ++ c :: u2) = (lexText Gen.cfgS u2).map (fun ts2 => ts1 ++ tc ++ ts2) :=
  lexText_sep_all 7 u1 u2 c ts1 tc h1 hcl hs

theorem closes_shipped (c : Char) (hc : isSepChar c = true) (u : List Char) (ts : List Tok)
    (h : lexText Gen.cfgS u = .ok ts) (hno : endState Gen.cfgS u ≠ .IN_EXPLAIN_1 ∨ c = '\n') :
    closesWith Gen.cfgS c (endState Gen.cfgS u) = true := by
  apply closes_of_not_open 7 c u ts h
  show endState Gen.cfgS u ∉ openStates (cfgOf 7) c
  rcases hno with hno | rfl
  · rcases sepchar_cases hc with rfl | rfl | rfl
    · rw [open_states 7]; simpa using hno
    · rw [open_states_blank 7]; simpa using hno
    · rw [open_states_newline 7]; simp
  · rw [open_states_newline 7]; simp

theorem endsOpen_shipped (t : List Char) :
    EndsOpen Gen.cfgS t = (endState Gen.cfgS (Gen.cfgS.pre t) == .IN_EXPLAIN_1) := endsOpen_eq 7 t

/-- a run of separator characters at the beginning of a text -/
theorem lexText_sepRun : ∀ (sp : List Char), (∀ c ∈ sp, isSepChar c = true) → ∀ rest : List Char,
    lexText Gen.cfgS (sp ++ rest) = (lexText Gen.cfgS rest).map (fun ts => semis sp ++ ts)
  | [], _, rest => by
    show lexText Gen.cfgS rest = _
    cases lexText Gen.cfgS rest <;> simp [semis, Except.map]
  | c :: sp, h, rest => by
    have hc := h c (by simp)
    have ih := lexText_sepRun sp (fun x hx => h x (by simp [hx])) rest
    have hcl : closesWith Gen.cfgS c (endState Gen.cfgS []) = true := by
      rcases sepchar_cases hc with rfl | rfl | rfl
      · exact wait_closes.1
      · exact wait_closes.2.1
      · exact wait_closes.2.2
    have := lexText_sep_shipped [] (sp ++ rest) c [] (semis [c]) rfl hcl (sepToks_shipped hc)
    simp only [List.nil_append] at this
    rw [List.cons_append, this, ih, semis_cons c sp]
    cases lexText Gen.cfgS rest <;> simp [Except.map]

/-- an accepted text that does not end open — or any accepted text, if the run begins with a line break —, a non-empty
run of separator characters, any text -/
theorem lexText_part (u : List Char) (ts : List Tok) (h : lexText Gen.cfgS u = .ok ts) (c : Char) (sp : List Char)
    (hno : endState Gen.cfgS u ≠ .IN_EXPLAIN_1 ∨ c = '\n') (hsp : ∀ x ∈ c :: sp, isSepChar x = true)
    (rest : List Char) :
    lexText Gen.cfgS (u ++ (c :: sp) ++ rest) = (lexText Gen.cfgS rest).map (fun ts2 => ts ++ semis (c :: sp) ++ ts2) := by
  have hc := hsp c (by simp)
  have hcl := closes_shipped c hc u ts h hno
  have := lexText_sep_shipped u (sp ++ rest) c ts (semis [c]) h hcl (sepToks_shipped hc)
  rw [List.append_assoc, List.cons_append, this, lexText_sepRun sp (fun x hx => hsp x (by simp [hx])) rest, semis_cons c sp]
  cases lexText Gen.cfgS rest <;> simp [Except.map]

/-- one part of a script: its text, the separator text behind it, its tokens, its statement -/
structure Part where
  text : List Char
  sep : List Char
  toks : List Tok
  stmt : Stmt

/-- the script: every part followed by its separator -/
def scriptOf (f : Part → List Char) : List Part → List Char
  | [] => []
  | p :: r => f p ++ p.sep ++ scriptOf f r

/-- every separator but the last contains exactly one `;`, the last one at most one -/
def SepsOK : List Part → Prop
  | [] => True
  | [p] => (semis p.sep).length ≤ 1
  | p :: q :: r => (semis p.sep).length = 1 ∧ SepsOK (q :: r)

/-- is there a final `;` -/
def finOf : List Part → Bool
  | [] => false
  | [p] => (semis p.sep).length == 1
  | _ :: q :: r => finOf (q :: r)

theorem lexText_nil : lexText Gen.cfgS [] = .ok [] := rfl

/-- **the lexer half for scripts with layout** (after the pre-passes): the tokens of the parts with one separator token
between them -/
theorem lexText_script (f : Part → List Char) : ∀ (parts : List Part),
    (∀ p ∈ parts, lexText Gen.cfgS (f p) = .ok p.toks ∧
      (endState Gen.cfgS (f p) ≠ .IN_EXPLAIN_1 ∨ p.sep.head? = some '\n') ∧
      ∀ c ∈ p.sep, isSepChar c = true) → SepsOK parts →
    lexText Gen.cfgS (scriptOf f parts) = .ok (script semi0 (parts.map Part.toks) (finOf parts))
  | [], _, _ => rfl
  | [p], h, hs => by
    obtain ⟨h1, h2, h3⟩ := h p (by simp)
    simp only [scriptOf, List.map_cons, List.map_nil, script, finOf]
    cases hsep : p.sep with
    | nil => simpa [semis] using h1
    | cons c sp =>
      have h2' : endState Gen.cfgS (f p) ≠ .IN_EXPLAIN_1 ∨ c = '\n' := by
        rw [hsep] at h2; simpa using h2
      rw [lexText_part (f p) p.toks h1 c sp h2' (by rw [← hsep]; exact h3) [], lexText_nil]
      simp only [SepsOK, hsep] at hs
      have hr := semis_eq_replicate (c :: sp)
      by_cases h1' : (semis (c :: sp)).length = 1
      · rw [h1'] at hr; simp [Except.map, hr]
      · have h0 : (semis (c :: sp)).length = 0 := by omega
        rw [h0] at hr; simp [Except.map, hr]
  | p :: q :: r, h, hs => by
    obtain ⟨h1, h2, h3⟩ := h p (by simp)
    have ih := lexText_script f (q :: r) (fun x hx => h x (by simp [hx])) hs.2
    have hlen := hs.1
    have hr := semis_eq_replicate p.sep
    rw [hlen] at hr
    cases hsep : p.sep with
    | nil => rw [hsep] at hlen; simp [semis] at hlen
    | cons c sp =>
      have h2' : endState Gen.cfgS (f p) ≠ .IN_EXPLAIN_1 ∨ c = '\n' := by
        rw [hsep] at h2; simpa using h2
      simp only [scriptOf, hsep] at ih ⊢
      rw [lexText_part (f p) p.toks h1 c sp h2' (by rw [← hsep]; exact h3) _, ih, ← hsep, hr]
      simp [Except.map, script, finOf]

/-! ## the pre-passes and the separators -/

theorem prep_nil (d : Gen.D) : prep d [] = [] := by cases d <;> rfl

/-- cutting at a separator character commutes with the pre-passes (every dialect but DB2, whose patterns contain a
blank; a line break must not follow a CR, or the pre-pass would join them) -/
theorem prep_sep (d : Gen.D) (hd : d ≠ .DB2) (a b : List Char) (c : Char) (hc : isSepChar c = true)
    (hcr : (dialectPre d a).getLast? ≠ some '\r') : prep d (a ++ c :: b) = prep d a ++ c :: prep d b := by
  have h1 : dialectPre d (a ++ c :: b) = dialectPre d a ++ c :: dialectPre d b := by
    cases d with
    | DB2 => exact absurd rfl hd
    | HIVE =>
      have : c ∉ "==".toList := by rcases sepchar_cases hc with rfl | rfl | rfl <;> decide
      simpa [dialectPre] using replace_sep "==".toList "=".toList c this a b
    | _ => rfl
  simp only [prep, h1, Cfg.pre, C05.shipped_pre]
  rcases sepchar_cases hc with rfl | rfl | rfl
  · exact preWith_sep ';' Gen.preChain (by decide) _ _
  · exact preWith_sep ' ' Gen.preChain (by decide) _ _
  · exact preWith_newline _ _ hcr

theorem dialectPre_nil (d : Gen.D) : dialectPre d [] = [] := by cases d <;> rfl

theorem prep_sepRun (d : Gen.D) (hd : d ≠ .DB2) : ∀ (sp : List Char), (∀ c ∈ sp, isSepChar c = true) → ∀ rest : List Char,
    prep d (sp ++ rest) = sp ++ prep d rest
  | [], _, _ => rfl
  | c :: sp, h, rest => by
    have := prep_sep d hd [] (sp ++ rest) c (h c (by simp)) (by rw [dialectPre_nil]; simp)
    simp only [List.nil_append, prep_nil] at this
    rw [List.cons_append, this, prep_sepRun d hd sp (fun x hx => h x (by simp [hx])) rest]
    rfl

/-- **the pre-passes commute with cutting the script at its separators** (every dialect but DB2; no part ends with CR) -/
theorem prep_script (d : Gen.D) (hd : d ≠ .DB2) : ∀ (parts : List Part),
    (∀ p ∈ parts, (dialectPre d p.text).getLast? ≠ some '\r' ∧ ∀ c ∈ p.sep, isSepChar c = true) → SepsOK parts →
    prep d (scriptOf Part.text parts) = scriptOf (fun p => prep d p.text) parts
  | [], _, _ => prep_nil d
  | [p], h, _ => by
    obtain ⟨h1, h2⟩ := h p (by simp)
    simp only [scriptOf, List.append_nil]
    cases hsep : p.sep with
    | nil => simp
    | cons c sp =>
      rw [hsep] at h2
      have := prep_sep d hd p.text (sp ++ []) c (h2 c (by simp)) h1
      rw [List.append_nil] at this
      rw [this, ← List.append_nil sp, prep_sepRun d hd sp (fun x hx => h2 x (by simp [hx])) [], prep_nil]
  | p :: q :: r, h, hs => by
    obtain ⟨h1, h2⟩ := h p (by simp)
    have ih := prep_script d hd (q :: r) (fun x hx => h x (by simp [hx])) hs.2
    have hlen := hs.1
    cases hsep : p.sep with
    | nil => rw [hsep] at hlen; simp [semis] at hlen
    | cons c sp =>
      rw [hsep] at h2
      simp only [scriptOf, hsep] at ih ⊢
      rw [List.append_assoc, List.cons_append, prep_sep d hd p.text _ c (h2 c (by simp)) h1,
        prep_sepRun d hd sp (fun x hx => h2 x (by simp [hx])) _, ih]
      simp

/-! ## `C10.script_text` -/

/-- **C10.script_text**: texts `t1 … tn`, each accepted alone as ONE statement by the model of `parse_statements` and
not ending open, written one after the other with separators (blanks and line breaks around one `;`; after the last text:
the same, or only blanks, or nothing): the model of `parse_statements` returns exactly the statements of the parts, in order. -/
theorem script_text (d : Gen.D) (parts : List Part)
    (hpart : ∀ p ∈ parts, lex Gen.cfgS (dialectPre d p.text) = .ok p.toks ∧
      pStatement d (fuelFor p.toks) p.toks = .ok (p.stmt, []) ∧
      (EndsOpen Gen.cfgS (dialectPre d p.text) = false ∨ p.sep.head? = some '\n') ∧ ∀ c ∈ p.sep, isSepChar c = true)
    (hseps : SepsOK parts)
    (hprep : prep d (scriptOf Part.text parts) = scriptOf (fun p => prep d p.text) parts) :
    parseStatementsText d (scriptOf Part.text parts) = .ok (parts.map Part.stmt) := by
  rw [parseStatementsText_eq, hprep]
  have hl := lexText_script (fun p => prep d p.text) parts (fun p hp => by
    obtain ⟨h1, _, h3, h4⟩ := hpart p hp
    refine ⟨by rw [← h1]; rfl, ?_, h4⟩
    rcases h3 with h3 | h3
    · left
      intro he
      have : EndsOpen Gen.cfgS (dialectPre d p.text) = true := by
        rw [endsOpen_shipped]; simpa [prep] using he
      rw [this] at h3; cases h3
    · exact Or.inr h3) hseps
  rw [hl]
  simp only
  have := script_concat_entry isSemi_lexed d (parts.map fun p => (p.toks, p.stmt))
    (by
      intro x hx
      obtain ⟨p, hp, rfl⟩ := List.mem_map.mp hx
      exact (hpart p hp).2.1) (finOf parts)
  simpa [List.map_map, Function.comp_def, semi0] using this

/-- the same with the pre-pass hypothesis discharged: every dialect but DB2, no part ending with a CR -/
theorem script_text_std (d : Gen.D) (hd : d ≠ .DB2) (parts : List Part)
    (hpart : ∀ p ∈ parts, lex Gen.cfgS (dialectPre d p.text) = .ok p.toks ∧
      pStatement d (fuelFor p.toks) p.toks = .ok (p.stmt, []) ∧
      (EndsOpen Gen.cfgS (dialectPre d p.text) = false ∨ p.sep.head? = some '\n') ∧
      (∀ c ∈ p.sep, isSepChar c = true) ∧ (dialectPre d p.text).getLast? ≠ some '\r')
    (hseps : SepsOK parts) :
    parseStatementsText d (scriptOf Part.text parts) = .ok (parts.map Part.stmt) :=
  script_text d parts (fun p hp => ⟨(hpart p hp).1, (hpart p hp).2.1, (hpart p hp).2.2.1, (hpart p hp).2.2.2.1⟩) hseps
    (prep_script d hd parts (fun p hp => ⟨(hpart p hp).2.2.2.2, (hpart p hp).2.2.2.1⟩) hseps)

/-- one part, no separator: "accepted alone as ONE statement" is what the hypotheses of `script_text` say -/
theorem alone (d : Gen.D) (t : List Char) (ts : List Tok) (s : Stmt) (h1 : lex Gen.cfgS (dialectPre d t) = .ok ts)
    (h2 : pStatement d (fuelFor ts) ts = .ok (s, [])) : parseStatementsText d t = .ok [s] := by
  have := script_concat_entry isSemi_lexed d [(ts, s)] (by simpa using h2) false
  simpa [parseStatementsText, h1, script] using this

/-! ## non-vacuity -/

theorem isOne_sound {r : Except Err (Stmt × List Tok)} (h : isOne r = true) : ∃ s, r = .ok (s, []) := by
  match r, h with
  | .ok (s, []), _ => exact ⟨s, rfl⟩

/-- texts that end in a string, a back-quoted name, a number, a bracket, a block comment, a hex literal, an operator, a
line comment closed by a line break: all accepted, none ends open — under the shipped setting and under the setting that
retains comments and blanks -/
example : (["SELECT 'a;b'", "SELECT `x;y`", "SELECT 1.5", "SELECT f(a;b)", "SELECT 1 /* c; */", "x = 0x1F", "a <=",
    "SELECT a -- c\n", ""].all fun t =>
      !EndsOpen Gen.cfgS t.toList && (lex Gen.cfgS t.toList).toBool &&
      !EndsOpen (cfgOf 0) t.toList && (lex (cfgOf 0) t.toList).toBool) = true := by decide +kernel

/-- … and texts that end inside a line comment end open, under every setting -/
example : (List.finRange 8).all (fun i => EndsOpen (cfgOf i) "SELECT a -- c".toList && EndsOpen (cfgOf i) "SELECT a # c".toList
    && EndsOpen (cfgOf i) "#".toList && !EndsOpen (cfgOf i) "SELECT '-- c'".toList
    && !EndsOpen (cfgOf i) "SELECT a /* -- */".toList) = true := by decide +kernel

def errIs (r : Except Err (List Tok)) (e : Err) : Bool := match r with | .error x => x == e | .ok _ => false
theorem errIs_sound {r : Except Err (List Tok)} {e : Err} (h : errIs r e = true) : r = .error e := by
  cases r with
  | ok x => cases h
  | error x => simp only [errIs, beq_iff_eq] at h; rw [h]

/-- instances of `lex_script`: a `;` in a string, in a back-quoted name, after a block comment -/
example : lex Gen.cfgS ("SELECT 'a;b'".toList ++ ';' :: "SELECT `x;y`".toList) =
    .ok [.single "SELECT".toList 0, .single "'a;b'".toList 10, semi0, .single "SELECT".toList 0, .single "`x;y`".toList 2] :=
  lex_script_ok 7 "SELECT 'a;b'".toList "SELECT `x;y`".toList
    [.single "SELECT".toList 0, .single "'a;b'".toList 10] [.single "SELECT".toList 0, .single "`x;y`".toList 2]
    (lexesTo_sound (by decide +kernel)) (by decide +kernel) (lexesTo_sound (by decide +kernel))

example : lex (cfgOf 0) ("SELECT 1 /* c; */".toList ++ ';' :: "USE db".toList) =
    .ok [.single "SELECT".toList 0, .single [' '] 1, .single ['1'] 72, .single [' '] 1, .single "/* c; */".toList 256, semi0,
      .single "USE".toList 2, .single [' '] 1, .single "db".toList 2] :=
  lex_script_ok 0 "SELECT 1 /* c; */".toList "USE db".toList
    [.single "SELECT".toList 0, .single [' '] 1, .single ['1'] 72, .single [' '] 1, .single "/* c; */".toList 256]
    [.single "USE".toList 2, .single [' '] 1, .single "db".toList 2]
    (lexesTo_sound (by decide +kernel)) (by decide +kernel) (lexesTo_sound (by decide +kernel))

/-- … the second part rejected: the script is rejected with the same error -/
example : lex Gen.cfgS ("SELECT f(a)".toList ++ ';' :: "SELECT 'open".toList) = .error .lexical :=
  (lex_script_err 7 "SELECT f(a)".toList "SELECT 'open".toList
    [.single "SELECT".toList 0, .single ['f'] 2, .group .paren [.single ['a'] 2] 4] (lexesTo_sound (by decide +kernel))
    (by decide +kernel) .lexical).mpr (errIs_sound (by decide +kernel))

-- the same by evaluation, independently of the theorems
#guard ["SELECT 'a;b'", "SELECT `x;y`", "SELECT 1.5", "SELECT f(a;b)", "SELECT 1 /* c; */", "x = 0x1F", "SELECT a -- c\n"].all
  fun t1 => ["SELECT 2", "", "USE db; x"].all fun t2 => eqbL (toks (t1 ++ ";" ++ t2)) (toks t1 ++ semi0 :: toks t2)
#guard eqbL (toks "SELECT 1 -- c;SELECT 2") (toks "SELECT 1")
#guard count (parseStatementsText .MYSQL "SELECT 1 -- c;SELECT 2".toList) == some 1
#guard count (parseStatementsText .MYSQL "SELECT 1 -- c\n;SELECT 2".toList) == some 2

def X1 : List Tok := [.single "SELECT".toList 0, .single "'a;b'".toList 10]
def X2 : List Tok := [.single "USE".toList 2, .single "db".toList 2]
def X3 : List Tok := [.single "SELECT".toList 0, .single ['f'] 2, .group .paren [.single ['x'] 2] 4]

/-- the decidable hypotheses of `script_text_std` about one part -/
def partOK (d : Gen.D) (t sep : List Char) (ts : List Tok) : Bool :=
  lexesTo (lex Gen.cfgS (dialectPre d t)) ts && (!EndsOpen Gen.cfgS (dialectPre d t) || sep.head? == some '\n') &&
  sep.all isSepChar && (dialectPre d t).getLast? != some '\r'

theorem partOK_sound {d : Gen.D} {t sep : List Char} {ts : List Tok} (h : partOK d t sep ts = true) :
    lex Gen.cfgS (dialectPre d t) = .ok ts ∧ (EndsOpen Gen.cfgS (dialectPre d t) = false ∨ sep.head? = some '\n') ∧
    (∀ c ∈ sep, isSepChar c = true) ∧ (dialectPre d t).getLast? ≠ some '\r' := by
  simp only [partOK, Bool.and_eq_true, Bool.or_eq_true, Bool.not_eq_true', beq_iff_eq, List.all_eq_true, bne_iff_ne] at h
  exact ⟨lexesTo_sound h.1.1.1, h.1.1.2, h.1.2, h.2⟩

/-- an instance of `script_text_std`, every hypothesis decided by the kernel: three statements — the first ends in a string
that contains a `;`, the third ends OPEN (line comment) and is followed by a line break —, separators with blanks and
line breaks, a final `;` -/
example : ∃ s1 s2 s3,
    parseStatementsText .MYSQL ("SELECT 'a;b'".toList ++ " ;\n ".toList ++ ("USE db".toList ++ ";".toList ++
      ("SELECT f(x) -- c".toList ++ "\n ; ".toList ++ []))) = .ok [s1, s2, s3] := by
  obtain ⟨s1, h1⟩ := isOne_sound (r := pStatement .MYSQL (fuelFor X1) X1) (by decide +kernel)
  obtain ⟨s2, h2⟩ := isOne_sound (r := pStatement .MYSQL (fuelFor X2) X2) (by decide +kernel)
  obtain ⟨s3, h3⟩ := isOne_sound (r := pStatement .MYSQL (fuelFor X3) X3) (by decide +kernel)
  have p1 := partOK_sound (d := .MYSQL) (t := "SELECT 'a;b'".toList) (sep := " ;\n ".toList) (ts := X1) (by decide +kernel)
  have p2 := partOK_sound (d := .MYSQL) (t := "USE db".toList) (sep := ";".toList) (ts := X2) (by decide +kernel)
  have p3 := partOK_sound (d := .MYSQL) (t := "SELECT f(x) -- c".toList) (sep := "\n ; ".toList) (ts := X3) (by decide +kernel)
  have e1 : (semis " ;\n ".toList).length = 1 := by decide
  have e2 : (semis ";".toList).length = 1 := by decide
  have e3 : (semis "\n ; ".toList).length ≤ 1 := by decide
  refine ⟨s1, s2, s3, ?_⟩
  exact script_text_std .MYSQL (by decide)
    [⟨"SELECT 'a;b'".toList, " ;\n ".toList, X1, s1⟩, ⟨"USE db".toList, ";".toList, X2, s2⟩,
     ⟨"SELECT f(x) -- c".toList, "\n ; ".toList, X3, s3⟩]
    (by
      intro p hp
      simp only [List.mem_cons, List.not_mem_nil, or_false] at hp
      rcases hp with rfl | rfl | rfl
      · exact ⟨p1.1, h1, p1.2⟩
      · exact ⟨p2.1, h2, p2.2⟩
      · exact ⟨p3.1, h3, p3.2⟩)
    ⟨e1, e2, e3⟩

def X4 : List Tok := [.single "SELECT".toList 0, .single ['a'] 2, .single ['='] 0, .single ['b'] 2]

/-- HIVE (`==` is replaced by `=` on the whole text) -/
example : ∃ s1 s2, parseStatementsText .HIVE ("SELECT a == b".toList ++ " ; ".toList ++ ("USE db".toList ++ [] ++ [])) =
    .ok [s1, s2] := by
  obtain ⟨s1, h1⟩ := isOne_sound (r := pStatement .HIVE (fuelFor X4) X4) (by decide +kernel)
  obtain ⟨s2, h2⟩ := isOne_sound (r := pStatement .HIVE (fuelFor X2) X2) (by decide +kernel)
  have p1 := partOK_sound (d := .HIVE) (t := "SELECT a == b".toList) (sep := " ; ".toList) (ts := X4) (by decide +kernel)
  have p2 := partOK_sound (d := .HIVE) (t := "USE db".toList) (sep := []) (ts := X2) (by decide +kernel)
  have e1 : (semis " ; ".toList).length = 1 := by decide
  have e2 : (semis []).length ≤ 1 := by decide
  refine ⟨s1, s2, ?_⟩
  exact script_text_std .HIVE (by decide)
    [⟨"SELECT a == b".toList, " ; ".toList, X4, s1⟩, ⟨"USE db".toList, [], X2, s2⟩]
    (by
      intro p hp
      simp only [List.mem_cons, List.not_mem_nil, or_false] at hp
      rcases hp with rfl | rfl
      · exact ⟨p1.1, h1, p1.2⟩
      · exact ⟨p2.1, h2, p2.2⟩)
    ⟨e1, e2⟩

/-- DB2: the pre-pass hypothesis of `script_text` is a decidable equation on a concrete script -/
example : ∃ s1 s2, parseStatementsText .DB2 ("USE db".toList ++ " ;\n".toList ++ ("USE db".toList ++ [] ++ [])) =
    .ok [s1, s2] := by
  obtain ⟨s2, h2⟩ := isOne_sound (r := pStatement .DB2 (fuelFor X2) X2) (by decide +kernel)
  have p1 := partOK_sound (d := .DB2) (t := "USE db".toList) (sep := " ;\n".toList) (ts := X2) (by decide +kernel)
  have p2 := partOK_sound (d := .DB2) (t := "USE db".toList) (sep := []) (ts := X2) (by decide +kernel)
  have e1 : (semis " ;\n".toList).length = 1 := by decide
  have e2 : (semis []).length ≤ 1 := by decide
  have hp : prep .DB2 ("USE db".toList ++ " ;\n".toList ++ ("USE db".toList ++ [] ++ [])) =
      prep .DB2 "USE db".toList ++ " ;\n".toList ++ (prep .DB2 "USE db".toList ++ [] ++ []) := by decide +kernel
  refine ⟨s2, s2, ?_⟩
  exact script_text .DB2 [⟨"USE db".toList, " ;\n".toList, X2, s2⟩, ⟨"USE db".toList, [], X2, s2⟩]
    (by
      intro p hp
      simp only [List.mem_cons, List.not_mem_nil, or_false] at hp
      rcases hp with rfl | rfl
      · exact ⟨p1.1, h2, p1.2.1, p1.2.2.1⟩
      · exact ⟨p2.1, h2, p2.2.1, p2.2.2.1⟩)
    ⟨e1, e2⟩ hp

-- the conclusion by evaluation
#guard reprs (parseStatementsText .MYSQL "SELECT 'a;b' ;\n USE db;SELECT f(x) -- c\n ; ".toList) ==
  (stmtOf (pStatement .MYSQL (fuelFor X1) X1) ++ stmtOf (pStatement .MYSQL (fuelFor X2) X2) ++
    stmtOf (pStatement .MYSQL (fuelFor X3) X3))
#guard count (parseStatementsText .MYSQL "SELECT 'a;b' ;\n USE db;SELECT f(x) -- c\n ; ".toList) == some 3

end C10
