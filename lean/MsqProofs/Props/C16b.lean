import MsqProofs.Lemmas.LineageNest
/-!
# C16 (extended) — unqualified references, ambiguity and unknown = analysis error, derived tables and WITH tables at any
# depth by composition of flows, INSERT pairing

`Flow.flowQ` (MsqModel/Analyze/LineageFlow.lean) is the specification; `LN.selectLineage` / `LN.insertLineage` the model of
`TableLineageAnalyzer`.  The fragment: single SELECT levels (no UNION: finding F-C16-7) without LATERAL VIEW, whose FROM / JOIN
items are base tables, references to WITH tables, or aliased derived tables (F-C16-12), named pairwise distinctly; select items
aliased or plain columns; references `t.c` or `c` (no `*`: F-C16-6, no aggregate without column argument); sub-queries in
expressions contribute nothing (F-C16-5); the query is `Flow.Hygienic` (F-C16-8).  Nesting depth, number of WITH tables and of
derived tables are arbitrary.
-/
namespace C16
open Ast AN LN Spec Flow LineageL

/-! ## 1. references: qualified, unqualified; unknown and ambiguous are the analysis error -/

/-- an unqualified column that NO upstream table of the level has is refused -/
theorem unknown_is_error {cat : Cat} {st : St} {tn : List (String × StdTable)} {scope : Scope} (hres : Resolves cat st tn scope)
    (n : String) (hn : n ≠ "*") (h : ∀ p ∈ scope, relHas p.2 n = false) :
    analyzeQuoteColumn cat tn ⟨none, some n, none⟩ st = .error .analyzer := by
  have := unqualified_spec hres n (by simpa using hn) st (Same.refl st)
  have hf : (scope.map (·.2)).filter (fun R => relHas R n) = [] := by
    rw [List.filter_eq_nil_iff]
    intro R hR
    obtain ⟨p, hp, e⟩ := List.mem_map.mp hR
    rw [← e]; simp [h p hp]
  simpa [refU, hf] using this

/-- an unqualified column that TWO (or more) upstream tables of the level have — counted per FROM / JOIN item, so also the same
table under two aliases, and whatever base sources the matching columns carry (a constant column of a derived table counts) — is
refused: "a table matched", not "any sources yet" (the clause attacked by the seeded changes C16-2 and C16-7) -/
theorem ambiguous_is_error {cat : Cat} {st : St} {tn : List (String × StdTable)} {scope : Scope} (hres : Resolves cat st tn scope)
    (n : String) (hn : n ≠ "*") (h : 2 ≤ ((scope.map (·.2)).filter (fun R => relHas R n)).length) :
    analyzeQuoteColumn cat tn ⟨none, some n, none⟩ st = .error .analyzer := by
  have := unqualified_spec hres n (by simpa using hn) st (Same.refl st)
  cases hf : (scope.map (·.2)).filter (fun R => relHas R n) with
  | nil => simp [hf] at h
  | cons a r =>
    cases r with
    | nil => simp [hf] at h
    | cons b r2 => simpa [refU, hf] using this

/-- exactly one upstream table has the column: its sources, whatever they are (possibly none) -/
theorem unique_resolves {cat : Cat} {st : St} {tn : List (String × StdTable)} {scope : Scope} (hres : Resolves cat st tn scope)
    (n : String) (hn : n ≠ "*") (R : Rel) (h : (scope.map (·.2)).filter (fun R => relHas R n) = [R]) :
    ∃ s st', dictGet? R n = some s ∧ analyzeQuoteColumn cat tn ⟨none, some n, none⟩ st = .ok (s, st') ∧ Same st st' := by
  have := unqualified_spec hres n (by simpa using hn) st (Same.refl st)
  have hR : relHas R n = true := by
    have : R ∈ (scope.map (·.2)).filter (fun R => relHas R n) := by simp [h]
    exact (List.mem_filter.mp this).2
  obtain ⟨s, hs⟩ := dictGet_of_has R n hR
  simp only [refU, h, hs] at this
  obtain ⟨st', e, hsame⟩ := this
  exact ⟨s, st', hs, e, hsame⟩

/-- an unknown qualifier, or a column the qualified table does not have, is refused -/
theorem unknown_qualified_is_error {cat : Cat} {st : St} {tn : List (String × StdTable)} {scope : Scope} (hres : Resolves cat st tn scope)
    (t n : String) (hn : n ≠ "*") (h : ∀ R, dictGet? scope t = some R → dictGet? R n = none) :
    analyzeQuoteColumn cat tn ⟨some t, some n, none⟩ st = .error .analyzer := by
  have := qualified_spec hres t n (by simpa using hn) st (Same.refl st)
  unfold refQ at this
  cases h1 : dictGet? scope t with
  | none => simpa [h1] using this
  | some R => simpa [h1, h R h1] using this

/-! ## 2. + 3. derived tables and WITH tables at any depth -/

/-- **C16, extended.**  For a hygienic query of the fragment, at any nesting depth (budget `f`): if the specification gives the flow
`R`, the lineage object the analysis builds (from empty stores) is the one built from `R` — output columns in order, numbered from
1, each with exactly (as a list, in reading order) the base columns that reach it through derived tables and WITH tables by
composition. -/
theorem lineage_eq_flow (cat : Cat) (f : Nat) (q : Query) (hy : Hygienic f q) (R : Rel) (h : flowQ cat f [] q = .ok R) :
    ∃ st', selectLineage cat f q {} = .ok (mkLineage (number R 1) Lineage.empty, st') := by
  have := (nest cat f).1 q [] [] {} (fun n => by simp [dictGet?]) hy.1 (by simp) hy.2
    (fun n _ => ⟨rfl, rfl⟩) (fun n _ => ⟨rfl, rfl⟩) (fun n R h => by simp [dictGet?] at h)
  rw [h] at this
  obtain ⟨⟨L, st'⟩, e, hL, _⟩ := this
  exact ⟨st', by rw [e]; simp at hL; rw [hL]⟩

/-- … and if the specification says "analysis error" — an unknown or ambiguous reference at ANY level, inside any derived table or
WITH table — the analysis raises the library's analysis error (it does not guess). -/
theorem analysis_error_raised (cat : Cat) (f : Nat) (q : Query) (hy : Hygienic f q) (h : flowQ cat f [] q = .error .analysis) :
    selectLineage cat f q {} = .error .analyzer := by
  have := (nest cat f).1 q [] [] {} (fun n => by simp [dictGet?]) hy.1 (by simp) hy.2
    (fun n _ => ⟨rfl, rfl⟩) (fun n _ => ⟨rfl, rfl⟩) (fun n R h => by simp [dictGet?] at h)
  rw [h] at this
  exact this

/-- what the result means: the output columns, in order -/
theorem lineage_columns (R : Rel) : (mkLineage (number R 1) Lineage.empty).allColumns = number R 1 := by
  simp [Lineage.allColumns, mk_data, Lineage.empty]

/-! ## INSERT … SELECT: pairing by position -/

theorem mk_idxSrc : ∀ (data : List (SCol × List SrcCol)) (l : Lineage),
    (mkLineage data l).idxSrc = data.foldl (fun m p => dictSet m p.1.idx p.2) l.idxSrc
  | [], l => rfl
  | (c, s) :: r, l => by simp [mkLineage, mk_idxSrc r]

theorem number_idx_ge : ∀ (R : Rel) (i : Nat), ∀ x ∈ (number R i).map (fun p => p.1.idx), (Int.ofNat i) ≤ x
  | [], _, x, h => by simp [number] at h
  | (n, s) :: r, i, x, h => by
    simp only [number, List.map_cons, List.mem_cons] at h
    rcases h with e | e
    · subst e; simp
    · have := number_idx_ge r (i + 1) x e
      simp at this ⊢; omega

theorem number_idx_nodup : ∀ (R : Rel) (i : Nat), ((number R i).map (fun p => p.1.idx)).Nodup
  | [], _ => by simp [number]
  | (n, s) :: r, i => by
    simp only [number, List.map_cons]
    refine List.nodup_cons.mpr ⟨?_, number_idx_nodup r (i + 1)⟩
    intro h
    have := number_idx_ge r (i + 1) _ h
    simp at this; omega

/-- the sources kept under position `i + k` are those of the `k`-th output column -/
theorem srcByIdx_number (R : Rel) (i k : Nat) (p : String × List SrcCol) (hk : R[k]? = some p) :
    (mkLineage (number R i) Lineage.empty).srcByIdx (Int.ofNat (i + k)) = .ok p.2 := by
  unfold Lineage.srcByIdx
  rw [mk_idxSrc]
  have key : (number R i).foldl (fun m p => dictSet m p.1.idx p.2) ([] : List (Int × List SrcCol))
      = ((number R i).map (fun p => (p.1.idx, p.2))).foldl (fun m p => dictSet m p.1 p.2) [] := by
    rw [List.foldl_map]
  simp only [Lineage.empty]
  rw [key, foldl_dictSet_fresh _ [] (by
    rw [List.map_map]
    exact number_idx_nodup R i) (by simp)]
  simp only [List.nil_append]
  -- find the entry
  have : ∀ (R : Rel) (i k : Nat), R[k]? = some p →
      dictGet? ((number R i).map (fun p => (p.1.idx, p.2))) (Int.ofNat (i + k)) = some p.2 := by
    intro R
    induction R with
    | nil => intro i k h; simp at h
    | cons a r ih =>
      intro i k h
      obtain ⟨n, s⟩ := a
      cases k with
      | zero =>
        simp at h; subst h
        simp [number, dictGet?, List.find?]
      | succ k =>
        simp at h
        have hne : ((Int.ofNat i) == Int.ofNat (i + (k + 1))) = false := by simp; omega
        simp only [number, List.map_cons, dictGet?, List.find?_cons, hne]
        have := ih (i + 1) k h
        simp only [dictGet?] at this
        rw [show i + (k + 1) = i + 1 + k by omega]
        exact this
  rw [this R i k hk]

theorem dictGet_map_self {α κ ν : Type} [BEq κ] [LawfulBEq κ] (key : α → κ) (val : α → ν) :
    ∀ (l : List α), (l.map key).Nodup → ∀ p ∈ l, dictGet? (l.map (fun p => (key p, val p))) (key p) = some (val p)
  | [], _, p, h => by simp at h
  | a :: r, hn, p, h => by
    rw [List.map_cons] at hn
    have hn' := List.nodup_cons.mp hn
    unfold dictGet?
    rw [List.map_cons, List.find?_cons]
    rcases List.mem_cons.mp h with e | e
    · subst e; simp
    · have hne : (key a == key p) = false := by
        simp only [beq_eq_false_iff_ne, ne_eq]
        intro he
        exact hn'.1 (by rw [he]; exact List.mem_map_of_mem e)
      simp only [hne]
      exact dictGet_map_self key val r hn'.2 p e

theorem nodup_map_some {α : Type} : ∀ (l : List α), l.Nodup → (l.map some).Nodup
  | [], _ => by simp
  | a :: r, h => by
    have h' := List.nodup_cons.mp h
    rw [List.map_cons]
    refine List.nodup_cons.mpr ⟨?_, nodup_map_some r h'.2⟩
    intro hm
    obtain ⟨x, hx, e⟩ := List.mem_map.mp hm
    have : x = a := by simpa using e
    exact h'.1 (this ▸ hx)

theorem mapM_positions (L : Lineage) (R : Rel) (hL : ∀ k p, R[k]? = some p → L.srcByIdx (Int.ofNat (1 + k)) = .ok p.2)
    (f : SrcCol × Nat → Except Err (SrcCol × List SrcCol))
    (hf : ∀ x v, L.srcByIdx (Int.ofNat x.2) = .ok v → f x = .ok (x.1, v)) :
    ∀ (down : List SrcCol) (k : Nat), down.length = (R.drop k).length →
      (down.zipIdx (1 + k)).mapM f = .ok (List.zipWith (fun d r => (d, r.2)) down (R.drop k))
  | [], k, h => by
    have : R.drop k = [] := by
      cases hd : R.drop k with
      | nil => rfl
      | cons a b => simp [hd] at h
    simp [this]; rfl
  | d :: ds, k, h => by
    cases hd : R.drop k with
    | nil => simp [hd] at h
    | cons p rest =>
      have hk : R[k]? = some p := by
        have := congrArg List.head? hd
        simpa [List.head?_drop] using this
      have hrest : R.drop (k + 1) = rest := by
        have := congrArg List.tail hd
        simpa [List.tail_drop] using this
      have ih := mapM_positions L R hL f hf ds (k + 1) (by simp [hd] at h; simp [hrest, h])
      simp only [List.zipIdx_cons, List.mapM_cons, hf (d, 1 + k) p.2 (hL k p hk), bind, Except.bind, pure, Except.pure, List.zipWith_cons_cons]
      rw [show 1 + k + 1 = 1 + (k + 1) by omega, ih, hrest]

theorem number_length : ∀ (R : Rel) (i : Nat), (number R i).length = R.length
  | [], _ => rfl
  | (a, b) :: r, i => by simp [number, number_length r]

/-- **pairing by position**: the i-th target column receives exactly the sources of the i-th output column (target column names
pairwise distinct: the result object is keyed by the target column's name) -/
theorem pairUp_ok (R : Rel) (down : List SrcCol) (st : St) (hlen : down.length = R.length) (hnd : (down.map (·.col)).Nodup) :
    pairUp (mkLineage (number R 1) Lineage.empty) down st = .ok (List.zipWith (fun d r => (d, r.2)) down R, st) := by
  simp only [pairUp, Lineage.allColumns, mk_data, Lineage.empty, List.nil_append, bind, Except.bind, pure, Except.pure]
  have hlen' : (down.length != (number R 1).length) = false := by simp [number_length, hlen]
  simp only [hlen', Bool.false_eq_true, if_false]
  have hm := fun f hf => mapM_positions (mkLineage (number R 1) Lineage.empty) R (fun k p hk => srcByIdx_number R 1 k p hk) f hf
    down 0 (by simp [hlen])
  simp only [Nat.add_zero, List.drop_zero, Lineage.empty] at hm
  rw [hm _ (fun x v hv => by simp only [Int.ofNat_eq_natCast] at hv; simp [hv])]
  simp only
  generalize hdef : List.zipWith (fun d (r : String × List SrcCol) => (d, r.2)) down R = data
  have hcols : data.map (fun p => p.1.col) = down.map (·.col) := by
    rw [← hdef]
    clear hm hdef hnd hlen'
    induction down generalizing R with
    | nil => simp
    | cons d r ih =>
      cases R with
      | nil => simp at hlen
      | cons p rest => simp [ih rest (by simpa using hlen)]
  have hkeys : (data.map (fun p => p.1.col)).Nodup := by rw [hcols]; exact hnd
  have hfold : data.foldl (fun m p => dictSet m p.1.col p.2) ([] : List (Option String × List SrcCol))
      = data.map (fun p => (p.1.col, p.2)) := by
    have key : data.foldl (fun m p => dictSet m p.1.col p.2) ([] : List (Option String × List SrcCol))
        = (data.map (fun p => (p.1.col, p.2))).foldl (fun m p => dictSet m p.1 p.2) [] := by
      rw [List.foldl_map]
    rw [key]
    have := foldl_dictSet_fresh (data.map (fun p => (p.1.col, p.2))) [] (by simpa [List.map_map, Function.comp_def] using hkeys) (by simp)
    simpa using this
  rw [hfold]
  have : ∀ p ∈ data, (p.1, (dictGet? (data.map (fun p => (p.1.col, p.2))) p.1.col).getD []) = p := by
    intro p hp
    rw [dictGet_map_self (fun p : SrcCol × List SrcCol => p.1.col) (fun p => p.2) data hkeys p hp]
    rfl
  have hmap : data.map (fun p => (p.1, (dictGet? (data.map (fun p => (p.1.col, p.2))) p.1.col).getD [])) = data := by
    conv => rhs; rw [← List.map_id data]
    exact List.map_congr_left this
  rw [hmap]

/-- a different number of columns is refused -/
theorem pairUp_arity (R : Rel) (down : List SrcCol) (st : St) (h : down.length ≠ R.length) :
    pairUp (mkLineage (number R 1) Lineage.empty) down st = .error .analyzer := by
  have : (down.length != (number R 1).length) = true := by simpa [number_length] using h
  simp [pairUp, Lineage.allColumns, mk_data, Lineage.empty, this]

theorem nodup_map_some' {α : Type} (l : List α) (h : l.Nodup) : (l.map some).Nodup := nodup_map_some l h

/-- **INSERT … SELECT with an explicit column list**: the i-th listed target column receives exactly the sources of the i-th output
column of the SELECT (target column names pairwise distinct) -/
theorem insert_pairing_ok (cat : Cat) (h : InsertHead) (cs : List (Option String × String)) (hc : h.columns = some cs)
    (q : Query) (R : Rel) (st' : St)
    (hsel : selectLineage cat (fuelFor (setWiths h.withs q)) (setWiths h.withs q) {} = .ok (mkLineage (number R 1) Lineage.empty, st'))
    (hlen : cs.length = R.length) (hnd : (cs.map (·.2)).Nodup) :
    insertLineage cat h q {} = .ok (List.zipWith (fun c r => (({ schema := h.table.schema, table := h.table.name, col := some c.2 } : SrcCol), r.2)) cs R, st') := by
  simp only [insertLineage, hc, bind, Except.bind, pure, Except.pure, hsel]
  rw [pairUp_ok R _ st' (by simpa using hlen) (by simpa [List.map_map, Function.comp_def] using nodup_map_some _ hnd)]
  simp [List.zipWith_map_left]

/-- … with a different number of columns it is refused -/
theorem insert_pairing (cat : Cat) (h : InsertHead) (cs : List (Option String × String)) (hc : h.columns = some cs)
    (q : Query) (R : Rel) (st' : St)
    (hsel : selectLineage cat (fuelFor (setWiths h.withs q)) (setWiths h.withs q) {} = .ok (mkLineage (number R 1) Lineage.empty, st'))
    (hlen : cs.length ≠ R.length) : insertLineage cat h q {} = .error .analyzer := by
  simp only [insertLineage, hc, bind, Except.bind, pure, Except.pure, hsel]
  exact pairUp_arity R _ st' (by simpa using hlen)

/-! ## instances (kernel-evaluated): the specification and the model on concrete (catalogue, query) pairs -/

def cat2 : Cat := [("t1", mkTable none "t1" ["a", "b"]), ("t2", mkTable none "t2" ["c", "x", "d"]), ("t", mkTable none "t" ["a", "b", "c"]),
  ("u", mkTable none "u" ["a", "d"])]

def run2 (q : Query) : Except Err (List (String × Int × List (Option String × String × Option String))) :=
  match selectLineage cat2 (fuelFor q) q {} with
  | .error e => .error e
  | .ok (l, _) => .ok (l.allColumns.map fun (c, s) => (c.name, c.idx, s.map fun x => (x.schema, x.table, x.col)))

def specOf (q : Query) : Except FErr (List (String × List (Option String × String × Option String))) :=
  (flowQ cat2 (fuelFor q) [] q).map fun R => R.map fun p => (p.1, p.2.map fun x => (x.schema, x.table, x.col))

def specErr (q : Query) : Bool := match flowQ cat2 (fuelFor q) [] q with | .error .analysis => true | _ => false
def specOk (q : Query) (v : List (String × List (Option String × String × Option String))) : Bool :=
  match specOf q with | .ok r => r == v | .error _ => false
theorem specErr_sound (q : Query) (h : specErr q = true) : flowQ cat2 (fuelFor q) [] q = .error .analysis := by
  unfold specErr at h
  split at h
  · assumption
  · simp at h

def hyg (q : Query) : Bool := decide (bound (fuelFor q) q).Nodup && (reads (fuelFor q) [] q).all (fun n => !(bound (fuelFor q) q).contains n)

theorem hyg_sound (q : Query) (h : hyg q = true) : Hygienic (fuelFor q) q := by
  simp only [hyg, Bool.and_eq_true, decide_eq_true_eq, List.all_eq_true, Bool.not_eq_true', List.contains_eq_mem,
    decide_eq_false_iff_not] at h
  exact ⟨h.1, fun n hn => by simpa using h.2 n hn⟩

def joinOn (t : FromTable) (l r : Expr) : Join := .mk "JOIN" t (some (.on (.compare "EQUAL_TO" l r)))
def selJ (cols : List (Expr × Option String)) (fr : List FromTable) (js : List Join) (ws : List WithTable := []) : Select :=
  .mk (some ws) false cols (some fr) [] js none none none none none none none none
def der (q : Query) (a : String) : FromTable := .mk (.sub q) (some a)

/-- the demo of seeded change C16-2 (patch NOT applied): `SELECT x FROM (SELECT 1 AS x, a FROM t1) s JOIN t2 ON s.a = t2.c`, `t2(c, x, d)` —
`x` exists in the derived table (as a constant, no base sources) and in `t2`: specification and analysis both say "analysis error" -/
def demoC16_2 : Query :=
  .single (selJ [(.column none "x", none)]
    [der (.single (selJ [(.literal "1", some "x"), (.column none "a", none)] [tbl "t1"] [])) "s"]
    [joinOn (tbl "t2") (.column (some "s") "a") (.column (some "t2") "c")])
theorem demo_C16_2_spec : specErr demoC16_2 = true := by decide +kernel
theorem demo_C16_2_hyg : hyg demoC16_2 = true := by decide +kernel
theorem demo_C16_2 : selectLineage cat2 (fuelFor demoC16_2) demoC16_2 {} = .error .analyzer :=
  analysis_error_raised cat2 _ demoC16_2 (hyg_sound _ demo_C16_2_hyg) (specErr_sound _ demo_C16_2_spec)

/-- the same through a WITH table: `WITH w AS (SELECT a, 0 AS x FROM t1) SELECT a, x FROM w JOIN t2 ON w.a = t2.c` -/
def demoC16_2w : Query :=
  .single (selJ [(.column none "a", none), (.column none "x", none)] [tbl "w"]
    [joinOn (tbl "t2") (.column (some "w") "a") (.column (some "t2") "c")]
    [.mk "w" (.single (selJ [(.column none "a", none), (.literal "0", some "x")] [tbl "t1"] []))])
example : specErr demoC16_2w = true := by decide +kernel
example : hyg demoC16_2w = true := by decide +kernel
example : isErr .analyzer (run2 demoC16_2w) = true := by decide +kernel

/-- the demo of seeded change C16-7 (patch NOT applied): a self-join `SELECT a FROM t x JOIN t y ON x.b = y.b` — the same table under two
aliases counts twice: "analysis error" -/
def demoC16_7 : Query :=
  .single (selJ [(.column none "a", none)] [tbl "t" (some "x")] [joinOn (tbl "t" (some "y")) (.column (some "x") "b") (.column (some "y") "b")])
theorem demo_C16_7_spec : specErr demoC16_7 = true := by decide +kernel
example : hyg demoC16_7 = true := by decide +kernel
example : isErr .analyzer (run2 demoC16_7) = true := by decide +kernel

/-- composition through two levels of derived tables, a WITH table read inside a derived table, an unqualified unique reference:
`WITH w AS (SELECT a + b AS s FROM t) SELECT o.k, d FROM (SELECT q.s AS k FROM (SELECT s FROM w) q) o JOIN u ON o.k = u.a` -/
def nested : Query :=
  .single (selJ [(.column (some "o") "k", none), (.column none "d", none)]
    [der (.single (selJ [(.column (some "q") "s", some "k")] [der (.single (selJ [(.column none "s", none)] [tbl "w"] [])) "q"] [])) "o"]
    [joinOn (tbl "u") (.column (some "o") "k") (.column (some "u") "a")]
    [.mk "w" (.single (selJ [(.compute (.column none "a") "PLUS" (.column none "b"), some "s")] [tbl "t"] []))])
theorem nested_spec : specOk nested [("k", [(none, "t", some "a"), (none, "t", some "b")]), ("d", [(none, "u", some "d")])] = true := by
  decide +kernel
example : hyg nested = true := by decide +kernel
example : isOk [("k", 1, [(none, "t", some "a"), (none, "t", some "b")]), ("d", 2, [(none, "u", some "d")])] (run2 nested) = true := by
  decide +kernel

/-- the control of the ambiguity family: the name is unique, the flow is the constant's (no base sources) -/
example : specOk (.single (selJ [(.column none "x", none)]
    [der (.single (selJ [(.literal "1", some "x"), (.column none "a", none)] [tbl "t1"] [])) "s"] [joinOn (tbl "u") (.column (some "s") "a") (.column (some "u") "a")]))
    [("x", [])] = true := by decide +kernel

/-- not hygienic (F-C16-8): an inner derived table takes the name of a base table the outer level reads — excluded, and the analysis is wrong there -/
example : hyg (.single (selJ [(.column (some "o") "v1", none), (.column (some "u") "d", none)]
    [der (.single (selJ [(.column (some "u") "a", some "v1")] [der (.single (selJ [(.column none "a", none)] [tbl "t"] [])) "u"] [])) "o", tbl "u"] [])) = false := by
  decide +kernel

end C16
