import MsqModel.Convert
import MsqModel.Helpers
import MsqModel.Val
import MsqModel.Parse.Entry
import MsqModel.Print
import MsqModel.Driver.ShowVal
import MsqModel.Driver.CmdConv
/-!
# C18 — MySQL → Hive table conversion preserves the schema

(a) tables (G, kernel-evaluated on the data regenerated from `common/static.py`): every catalogued MySQL type is a key of the
shipped map, every image is a Hive type, `DECIMAL` is the only image whose parameters Hive keeps;
(b) helpers on typed trees: `change_type` succeeds on every table whose column types are catalogued, maps exactly the type
component of the view and nothing else; `set_table_name`, `append_column`, `append_partition_by_column` change exactly their
component; the typed helpers ARE the `Val`-level helpers of C11 on trees (so what the `HELP` correspondence validates carries over);
(c) printing: the Hive column printer states name, type and comment only, with parameters exactly where Hive has them;
print-for-Hive / re-parse examples are evaluated in the kernel on the full parser and printer models.
The general print → re-parse theorem for DDL is not proved (it needs the lexer on printed text); it is validated by the `CONV`
correspondence and oracle.
-/
namespace C18
open Ast Conv Help

/-! ## (a) the shipped tables -/

/-- every type of `MYSQL_DATA_TYPE` is a key of `HASHMAP_MYSQL_TO_HIVE` -/
theorem catalogue_covered : (Gen.mysqlDataTypes.all fun t => Gen.mysqlToHive.any (·.1 == t.1)) = true := by decide +kernel

/-- … also through the `.upper()` lookup `change_type` performs -/
theorem catalogue_lookup : (Gen.mysqlDataTypes.all fun t => (Gen.mysqlToHive.find? (·.1 == t.1)).isSome) = true := by decide +kernel

/-- every image of the map is a Hive type -/
theorem images_are_hive_types : (Gen.mysqlToHive.all fun p => hiveTypes.contains p.2) = true := by decide +kernel

/-- among the images, `DECIMAL` is the only type whose parameters the Hive printer keeps -/
theorem images_keeping_params : (Gen.mysqlToHive.all fun p => hiveKeepsParams p.2 == (p.2 == "DECIMAL")) = true := by decide +kernel

/-- the map has no duplicate keys (a dict cannot, the generated list must not) -/
theorem map_keys_distinct : (Gen.mysqlToHive.map (·.1)).eraseDups.length = Gen.mysqlToHive.length := by decide +kernel

/-! ## (b) the helpers on typed trees -/

theorem lookup_catalogued (n : String) (h : Gen.mysqlDataTypes.any (·.1 == Gen.pyUpperS n) = true) :
    ∃ x, lookup Gen.mysqlToHive n = some x := by
  obtain ⟨t, ht, he⟩ := List.any_eq_true.1 h
  have he' : t.1 = Gen.pyUpperS n := by simpa using he
  have := List.all_eq_true.1 catalogue_lookup t ht
  unfold lookup
  rw [← he']
  cases hf : List.find? (fun x => x.1 == t.1) Gen.mysqlToHive with
  | none => simp [hf] at this
  | some x => exact ⟨x.2, rfl⟩

/-- a column type is catalogued (letter case ignored, as `change_type` does) -/
def Catalogued (col : DefCol) : Prop := Gen.mysqlDataTypes.any (·.1 == Gen.pyUpperS col.type.name) = true

theorem changeColsT_total (rp : Bool) : ∀ cols : List DefCol, (∀ col ∈ cols, Catalogued col) →
    ∃ cols', changeColsT Gen.mysqlToHive rp cols = .ok cols'
  | [], _ => ⟨[], rfl⟩
  | c :: r, h => by
    obtain ⟨x, hx⟩ := lookup_catalogued c.type.name (h c (by simp))
    obtain ⟨r', hr'⟩ := changeColsT_total rp r (fun col hc => h col (by simp [hc]))
    simp only [changeColsT, changeColT, hx, hr']
    exact ⟨_, rfl⟩

/-- **C18(a)⇒(b)**: `change_type(HASHMAP_MYSQL_TO_HIVE)` never raises `KeyError` on a table whose column types are all in the
parser's catalogue -/
theorem changeTypeT_total (rp : Bool) (c : CreateTable) (h : ∀ col ∈ c.columns, Catalogued col) :
    ∃ c', changeTypeT Gen.mysqlToHive rp c = .ok c' := by
  obtain ⟨cols', hc⟩ := changeColsT_total rp c.columns h
  simp only [changeTypeT, hc]
  exact ⟨_, rfl⟩

theorem changeColsT_view (hm : List (String × String)) (rp : Bool) : ∀ (cols cols' : List DefCol),
    changeColsT hm rp cols = .ok cols' → mapCols hm rp (cols.map colView) = some (cols'.map colView)
  | [], cols', h => by
    simp only [changeColsT] at h
    injection h with h; subst h; rfl
  | c :: r, cols', h => by
    unfold changeColsT changeColT at h
    cases hl : lookup hm c.type.name with
    | none => simp [hl] at h
    | some x =>
      simp only [hl] at h
      cases hr : changeColsT hm rp r with
      | error e => simp [hr] at h
      | ok r' =>
        simp only [hr] at h
        injection h with h; subst h
        have := changeColsT_view hm rp r r' hr
        simp only [List.map_cons, mapCols, mapCol, colView, hl, Option.map_some, this]

/-- **`change_type` changes the type component of the view exactly as the map says, and nothing else**: table name, column
names, order and comments, partition columns and the table comment are kept -/
theorem changeTypeT_view (hm : List (String × String)) (rp : Bool) (c c' : CreateTable) (h : changeTypeT hm rp c = .ok c') :
    mapCols hm rp (view c).cols = some (view c').cols ∧ (view c').schema = (view c).schema ∧ (view c').table = (view c).table
      ∧ (view c').parts = (view c).parts ∧ (view c').comment = (view c).comment := by
  unfold changeTypeT at h
  cases hc : changeColsT hm rp c.columns with
  | error e => simp [hc] at h
  | ok cols =>
    simp only [hc] at h
    injection h with h; subst h
    exact ⟨changeColsT_view hm rp _ _ hc, rfl, rfl, rfl, rfl⟩

/-- `set_table_name` changes the name and nothing else -/
theorem setTableNameT_view (t : TableName) (c : CreateTable) :
    view (setTableNameT t c) = { view c with schema := t.schema, table := t.name } := rfl
/-- `append_column` appends one column and nothing else -/
theorem appendColumnT_view (col : DefCol) (c : CreateTable) :
    view (appendColumnT col c) = { view c with cols := (view c).cols ++ [colView col] } := by
  simp [view, appendColumnT]
/-- `append_partition_by_column` appends one partition column and nothing else -/
theorem appendPartitionByColumnT_view (col : DefCol) (c : CreateTable) :
    view (appendPartitionByColumnT col c) = { view c with parts := (view c).parts ++ [colView col] } := by
  simp [view, appendPartitionByColumnT]

/-! ### the typed helpers are the `Val`-level helpers of C11 on trees -/

def defColFields (col : DefCol) : Fields :=
  [("column_name", .str col.name), ("column_type", col.type.toVal), ("is_unsigned", .bool col.unsigned),
    ("is_zerofill", .bool col.zerofill), ("character_set", Val.optStr col.charset), ("collate", Val.optStr col.collate),
    ("generated_always_as", Val.ofOpt GenCol.toVal col.generated), ("is_allow_null", .bool col.allowNull), ("is_not_null", .bool col.notNull),
    ("is_auto_increment", .bool col.autoInc), ("default", optExpr col.default), ("on_update", optExpr col.onUpdate), ("comment", Val.optStr col.comment)]

theorem defCol_toVal (col : DefCol) : DefCol.toVal col = .node "ASTDefineColumnExpression" (defColFields col) := rfl

theorem get_column_type (col : DefCol) : dictGet (defColFields col) "column_type" = some col.type.toVal := by
  simp [defColFields, dictGet]

theorem set_column_type (col : DefCol) (t : ColType) : dictSet (defColFields col) "column_type" t.toVal = defColFields { col with type := t } := by
  simp [defColFields, dictSet]

theorem colType_fields (t : ColType) : t.toVal = .node "ASTColumnTypeExpression" [("name", .str t.name), ("params", match t.params with | .none => Val.none | .some l => .tuple (exprs l))] := rfl

theorem changeColumn_typed (hm : List (String × String)) (rp : Bool) (col : DefCol) :
    changeColumn hm rp (DefCol.toVal col) = (changeColT hm rp col).map DefCol.toVal := by
  rw [defCol_toVal]
  unfold changeColumn
  simp only [get_column_type, colType_fields]
  simp only [dictGet, Conv.lookup, changeColT]
  simp only [beq_self_eq_true, ↓reduceIte]
  cases hf : List.find? (fun x => x.1 == Gen.pyUpperS col.type.name) hm with
  | none => simp [Except.map]
  | some h =>
    have hs := set_column_type col ⟨h.2, if rp then none else col.type.params⟩
    simp only [colType_fields] at hs
    cases rp
    · simp only [Bool.false_eq_true, ↓reduceIte, Except.map, Option.map_some, defCol_toVal] at hs ⊢
      rw [← hs]
      simp
    · simp only [↓reduceIte, Except.map, Option.map_some, defCol_toVal] at hs ⊢
      rw [← hs]

theorem changeColumns_typed (hm : List (String × String)) (rp : Bool) : ∀ cols : List DefCol,
    changeColumns hm rp (cols.map DefCol.toVal) = (changeColsT hm rp cols).map (List.map DefCol.toVal)
  | [] => rfl
  | c :: r => by
    simp only [List.map_cons, changeColumns, changeColsT, changeColumn_typed, changeColumns_typed hm rp r]
    cases changeColT hm rp c with
    | error e => rfl
    | ok c' =>
      cases changeColsT hm rp r with
      | error e => rfl
      | ok r' => rfl

def ctFields (c : CreateTable) : Fields :=
  [("table_name", c.table.toVal), ("if_not_exists", .bool c.ifNotExists),
    ("columns", .tuple (c.columns.map DefCol.toVal)), ("primary_key", Val.ofOpt Index.toVal c.primaryKey),
    ("unique_key", .tuple (c.uniqueKey.map Index.toVal)), ("key", .tuple (c.key.map Index.toVal)),
    ("fulltext_key", .tuple (c.fulltextKey.map Index.toVal)), ("foreign_key", .tuple (c.foreignKey.map ForeignKey.toVal)),
    ("partitioned_by", .tuple (c.partitionedBy.map DefCol.toVal)), ("comment", Val.optStr c.comment), ("engine", Val.optStr c.engine),
    ("auto_increment", Val.optInt c.autoIncrement), ("default_charset", Val.optStr c.defaultCharset), ("collate", Val.optStr c.collate),
    ("row_format", Val.optStr c.rowFormat), ("states_persistent", Val.optStr c.statesPersistent), ("row_format_serde", Val.optStr c.rowFormatSerde),
    ("row_format_delimited_fields_terminated_by", Val.optStr c.rowFormatDelimited), ("stored_as_inputformat", Val.optStr c.storedAsInputformat),
    ("stored_as_textfile", .bool c.storedAsTextfile), ("outputformat", Val.optStr c.outputformat), ("location", Val.optStr c.location),
    ("tblproperties", .tuple (c.tblproperties.map ConfigStr.toVal))]

theorem createTable_toVal (c : CreateTable) : c.toVal = .node "ASTCreateTableStatement" (ctFields c) := rfl
theorem get_columns (c : CreateTable) : dictGet (ctFields c) "columns" = some (.tuple (c.columns.map DefCol.toVal)) := by
  simp [ctFields, dictGet]
theorem set_columns (c : CreateTable) (cols : List DefCol) :
    dictSet (ctFields c) "columns" (.tuple (cols.map DefCol.toVal)) = ctFields { c with columns := cols } := by
  simp [ctFields, dictSet]

/-- the typed `change_type` is the `Val`-level one on trees -/
theorem changeType_typed (hm : List (String × String)) (rp : Bool) (c : CreateTable) :
    changeType c.toVal hm rp = (changeTypeT hm rp c).map CreateTable.toVal := by
  rw [createTable_toVal]
  unfold changeType changeTypeWith changeTypeT
  simp only [beq_self_eq_true, ↓reduceIte, get_columns, changeColumns_typed]
  cases changeColsT hm rp c.columns with
  | error e => rfl
  | ok cols => simp only [Except.map, set_columns, createTable_toVal]

theorem get_partitioned_by (c : CreateTable) : dictGet (ctFields c) "partitioned_by" = some (.tuple (c.partitionedBy.map DefCol.toVal)) := by
  simp [ctFields, dictGet]
theorem set_partitioned_by (c : CreateTable) (cols : List DefCol) :
    dictSet (ctFields c) "partitioned_by" (.tuple (cols.map DefCol.toVal)) = ctFields { c with partitionedBy := cols } := by
  simp [ctFields, dictSet]
theorem set_table_name (c : CreateTable) (t : TableName) : dictSet (ctFields c) "table_name" t.toVal = ctFields { c with table := t } := by
  simp [ctFields, dictSet]

theorem setTableName_typed (t : TableName) (c : CreateTable) : setTableName c.toVal t.toVal = .ok (setTableNameT t c).toVal := by
  rw [createTable_toVal]
  unfold setTableName setTableNameT
  simp only [beq_self_eq_true, ↓reduceIte, set_table_name, createTable_toVal]

theorem appendColumn_typed (col : DefCol) (c : CreateTable) :
    appendColumn c.toVal col.toVal = .ok ((appendColumnT col c).toVal, c.toVal) := by
  rw [createTable_toVal]
  unfold appendColumn appendTo appendColumnT
  simp only [beq_self_eq_true, ↓reduceIte, get_columns]
  have := set_columns c (c.columns ++ [col])
  simp only [List.map_append, List.map_cons, List.map_nil] at this
  rw [this, createTable_toVal]

theorem appendPartitionByColumn_typed (col : DefCol) (c : CreateTable) :
    appendPartitionByColumn c.toVal col.toVal = .ok ((appendPartitionByColumnT col c).toVal, c.toVal) := by
  rw [createTable_toVal]
  unfold appendPartitionByColumn appendTo appendPartitionByColumnT
  simp only [beq_self_eq_true, ↓reduceIte, get_partitioned_by]
  have := set_partitioned_by c (c.partitionedBy ++ [col])
  simp only [List.map_append, List.map_cons, List.map_nil] at this
  rw [this, createTable_toVal]

/-! ## (c) printing -/

/-- the Hive column-type printer drops the parameters of every type outside DECIMAL / VARCHAR / CHAR … -/
theorem prColType_hive_drops (t : ColType) (h : hiveKeepsParams t.name = false) : PR.prColType .HIVE t = .ok t.name := by
  unfold PR.prColType
  unfold hiveKeepsParams at h
  cases t.params with
  | none => rfl
  | some ps => simp only [h, beq_self_eq_true, Bool.not_false, Bool.and_self, ↓reduceIte]

/-- … and keeps them for these three -/
theorem prColType_hive_keeps (t : ColType) (ps : List Expr) (l : List String) (h : hiveKeepsParams t.name = true)
    (hp : t.params = some ps) (hl : PR.prList8 .HIVE ps = .ok l) :
    PR.prColType .HIVE t = .ok s!"{t.name}({PR.joinS "," l})" := by
  unfold PR.prColType
  unfold hiveKeepsParams at h
  simp only [hp, h, hl, Except.map, Bool.not_true, Bool.and_false, Bool.false_eq_true, ↓reduceIte]

/-- a type without parameters prints as its name in every dialect -/
theorem prColType_plain (d : Gen.D) (t : ColType) (h : t.params = none) : PR.prColType d t = .ok t.name := by
  unfold PR.prColType
  simp [h]

/-- **the Hive column printer states the column's name, type and comment and nothing else**: every MySQL-only attribute
(UNSIGNED, ZEROFILL, CHARACTER SET, COLLATE, GENERATED, NULL, NOT NULL, AUTO_INCREMENT, DEFAULT, ON UPDATE) is dropped, the
comment is kept verbatim -/
theorem prDefCol_hive (c : DefCol) (ty : String) (h : PR.prColType .HIVE c.type = .ok ty) :
    PR.prDefCol .HIVE c = .ok (s!"`{c.name}` {ty}" ++ (match c.comment with | some s => s!" COMMENT {s}" | none => "")) := by
  unfold PR.prDefCol
  simp only [h, bind, Except.bind, pure, Except.pure]
  cases c.generated <;> cases c.default <;> cases c.onUpdate <;> cases c.charset <;> cases c.collate <;> cases c.comment <;> simp

/-! ### print for Hive, re-parse with Hive: kernel-evaluated on the full lexer, parser and printer models -/

/-- parse as MySQL, apply `change_type(HASHMAP_MYSQL_TO_HIVE, remove_param)`, print for Hive, re-parse as Hive:
(the Hive view of the edited tree, the view of the re-parsed tree), both in canonical form -/
def convert (ddl : String) (removeParam : Bool) : Option (String × String) :=
  match PM.parseStatementsText .MYSQL ddl.toList with
  | .ok [.createTable c] =>
    match changeTypeT Gen.mysqlToHive removeParam c with
    | .ok c' =>
      match PR.prStmt .HIVE (.createTable c') with
      | .ok text =>
        match PM.parseStatementsText .HIVE text.toList with
        | .ok [.createTable c''] => some (Drv.showView (view c').hive, Drv.showView (view c''))
        | _ => none
      | .error _ => none
    | .error _ => none
  | _ => none

def sampleDDL : String :=
  "CREATE TABLE `o` (`id` bigint(20) unsigned NOT NULL COMMENT 'pk', `n` varchar(32) DEFAULT NULL, `p` decimal(10,2), PRIMARY KEY (`id`)) ENGINE=InnoDB COMMENT='c'"

/-- regression example: with `remove_param=False` the re-parsed Hive table declares exactly the mapped view
(table name, three columns in order with comments, mapped types, DECIMAL(10,2) kept, table comment) -/
example : (match convert sampleDDL false with | some (want, got) => want == got | none => false) = true := by decide +kernel

/-- … and the same with the default `remove_param=True` (here `want` is the view of the edited tree, see F-C18-2 for what it lost) -/
example : (match convert sampleDDL true with | some (want, got) => want == got | none => false) = true := by decide +kernel

/-- direct printing for Hive (no mapping): the re-parsed table keeps name, columns, comments; parameters only where Hive has them -/
example : (match PM.parseStatementsText .MYSQL sampleDDL.toList with
    | .ok [.createTable c] =>
      (match PR.prStmt .HIVE (.createTable c) with
       | .ok text => (match PM.parseStatementsText .HIVE text.toList with
         | .ok [.createTable c'] => Drv.showView (view c).hive == Drv.showView (view c')
         | _ => false)
       | .error _ => false)
    | _ => false) = true := by decide +kernel

/-- helper edits show up in the printed Hive DDL: rename, added column and added partition column are declared by the re-parsed table -/
example : (match PM.parseStatementsText .MYSQL "CREATE TABLE t (a INT(11), b VARCHAR(8) COMMENT 'x')".toList with
    | .ok [.createTable c] =>
      let c1 := appendPartitionByColumnT { name := "dt", type := ⟨"string", none⟩ }
                  (appendColumnT { name := "z", type := ⟨"BIGINT", none⟩, comment := some "'added'" } (setTableNameT ⟨none, "t_h"⟩ c))
      (match PR.prStmt .HIVE (.createTable c1) with
       | .ok text => (match PM.parseStatementsText .HIVE text.toList with
         | .ok [.createTable c'] => Drv.showView (view c1).hive == Drv.showView (view c')
         | _ => false)
       | .error _ => false)
    | _ => false) = true := by decide +kernel

/-! ### witnesses -/

/-- F-C18-1: a column type outside the map — `NUMERIC`, a standard MySQL type the catalogue does not list — makes
`change_type` raise `KeyError` -/
theorem witness_keyerror :
    (match PM.parseStatementsText .MYSQL "CREATE TABLE t (a NUMERIC(10,2))".toList with
     | .ok [.createTable c] => (match changeTypeT Gen.mysqlToHive true c with | .error (.py .KeyError) => true | _ => false)
     | _ => false) = true := by decide +kernel

/-- F-C18-2: with the default `remove_param=True`, `DECIMAL(10,2)` becomes a bare `DECIMAL` although Hive has the parameters -/
theorem witness_decimal_params_lost :
    (match PM.parseStatementsText .MYSQL "CREATE TABLE t (p DECIMAL(10,2))".toList with
     | .ok [.createTable c] =>
       (match changeTypeT Gen.mysqlToHive true c with
        | .ok c' => (view c').cols.all (fun x => x.type == "DECIMAL" && x.params.isNone) && (view c).cols.all (fun x => x.params.isSome)
        | .error _ => false)
     | _ => false) = true := by decide +kernel

/-- F-C18-3: a table name with a dot inside its quoted part is printed as one back-quoted dotted name and re-parses as a
different table (no schema, table `s.a.b`) -/
theorem witness_dotted_table_name :
    (match PM.parseStatementsText .MYSQL "CREATE TABLE `s`.`a.b` (a int)".toList with
     | .ok [.createTable c] =>
       (match PR.prStmt .HIVE (.createTable c) with
        | .ok text => (match PM.parseStatementsText .HIVE text.toList with
          | .ok [.createTable c'] => c.table.schema == some "s" && c.table.name == "a.b" && c'.table.schema == none && c'.table.name == "s.a.b"
          | _ => false)
        | .error _ => false)
     | _ => false) = true := by decide +kernel

/-- the Hive DDL starts with a blank (`node.py:1702`), harmless for re-parsing -/
theorem witness_hive_leading_blank :
    (match PM.parseStatementsText .MYSQL "CREATE TABLE t (a int)".toList with
     | .ok [.createTable c] => (match PR.prStmt .HIVE (.createTable c) with | .ok text => text.startsWith " CREATE TABLE" | .error _ => false)
     | _ => false) = true := by decide +kernel

end C18
