import MsqProofs.Lemmas.SR
import MsqProofs.Lemmas.ParseMono
/-!
# C02 — expression trees follow the documented operator precedence and grouping

Property theorems only.  `SR.shiftReduce_spec` is the abstract result (the loop returns THE tree that is
well nested w.r.t. the level table and has the given in-order sequence); `compute_eq_shiftReduce`
transfers it to the parser model at token level; the `decide` obligations tie the level numbers to the
documented order on the GENERATED tables.
-/
open Lex
namespace C02
open PM SR Ast

/-! ## the documented order is what the generated level table says -/

/-- levels of the compute operators, as generated from `EnumComputeOperator.level` -/
def levelOf (name : String) : Option Nat := (Gen.computeEnum.find? (·.1 == name)).map (·.2.2)

/-- unary (2) ≺ ^ (3) ≺ * / % (4) ≺ + - (5) ≺ << >> (6) ≺ & (7) ≺ | (8): members and strict order -/
theorem level_table :
    (Gen.computeEnum.map fun e => (e.2.1, e.2.2)) =
      [("~", 2), ("!", 2), ("^", 3), ("*", 4), ("/", 4), ("%", 4), ("+", 5), ("-", 5), ("<<", 6), (">>", 6), ("&", 7), ("|", 8)] := by
  decide

/-- both spellings map to one operator: DIV ≡ /, MOD ≡ % (`COMPUTE_OPERATOR_HASH`) -/
theorem spellings : computeOp? "DIV" = computeOp? "/" ∧ computeOp? "MOD" = computeOp? "%" := by decide

/-- every key of the operator table resolves to a member with a level -/
theorem hash_total : Gen.computeHash.all (fun e => (computeOp? e.1).isSome) = true := by decide

/-- Hive's `!` is a NOT-level prefix and not a unary operator; everywhere else it is unary -/
theorem hive_bang : (Gen.unarySet .HIVE).contains "!" = false ∧ (Gen.notSet .HIVE).contains "!" = true
    ∧ Gen.allD.all (fun d => d == .HIVE || ((Gen.unarySet d).contains "!" && !(Gen.notSet d).contains "!")) = true := by decide

/-! ## the compute loop of the model is the abstract shift/reduce -/

/-- an operator token: a leaf whose upper-cased source is a key of `COMPUTE_OPERATOR_HASH` -/
structure OpTok where
  tok : Tok
  name : String
  level : Nat
  ok : computeOp? (up tok.src) = some (name, level)

def OpTok.op (o : OpTok) : Op := ⟨o.name, o.level⟩

def embed : T Expr → Expr
  | .leaf e => e
  | .node l o r => .compute (embed l) o.name (embed r)

def embSt (st : List (T Expr × Op)) : List (Expr × String × Nat) := st.map fun e => (embed e.1, e.2.name, e.2.level)

theorem reduceWhile_embed (lvl : Nat) (st : List (T Expr × Op)) (top : T Expr) :
    PM.reduceWhile lvl (embSt st) (embed top) =
      (embSt (SR.reduceWhile lvl st top).1, embed (SR.reduceWhile lvl st top).2) := by
  induction st generalizing top with
  | nil => simp [PM.reduceWhile, SR.reduceWhile, embSt]
  | cons e st ih =>
    obtain ⟨l, o⟩ := e
    simp only [embSt, List.map_cons, PM.reduceWhile, SR.reduceWhile]
    split
    · have := ih (T.node l o top)
      simp only [embSt, embed] at this
      simp [this]
    · simp [embSt]

theorem collapse_embed (st : List (T Expr × Op)) (top : T Expr) :
    PM.collapse (embSt st) (embed top) = embed (SR.collapse st top) := by
  induction st generalizing top with
  | nil => simp [PM.collapse, SR.collapse, embSt]
  | cons e st ih =>
    obtain ⟨l, o⟩ := e
    simp only [embSt, List.map_cons, PM.collapse, SR.collapse]
    have := ih (T.node l o top)
    simp only [embSt, embed] at this
    exact this

/-- tokens of `o₁ u₁ o₂ u₂ …` given a rendering for every operand -/
def renderTail : List (OpTok × List Tok) → List Tok
  | [] => []
  | (o, r) :: xs => o.tok :: r ++ renderTail xs

def NoComputeHead : List Tok → Prop
  | t :: _ => computeOp? (up t.src) = none
  | [] => True

variable (d : Gen.D)

/-- an operand rendering `r` parses at the unary level to `u` in front of anything that does not extend it -/
def Operand (Follow : List Tok → Prop) (r : List Tok) (u : Expr) : Prop :=
  ∀ rest, Follow rest → ∃ f, pUnary d f (r ++ rest) = .ok (u, rest)

theorem loop_stop (st : List (Expr × String × Nat)) (top : Expr) (rest : List Tok) (h : NoComputeHead rest) :
    ∃ f, pComputeLoop d f st top rest = .ok (PM.collapse st top, rest) := by
  refine ⟨1, ?_⟩
  unfold pComputeLoop
  cases rest with
  | nil => rfl
  | cons t r => simp only [NoComputeHead] at h; simp [h]

theorem loop_step (st : List (Expr × String × Nat)) (top u : Expr) (o : OpTok) (ts rest : List Tok) (res)
    (hu : ∃ f, pUnary d f ts = .ok (u, rest))
    (hl : ∃ f, pComputeLoop d f (((PM.reduceWhile o.level st top).2, o.name, o.level) :: (PM.reduceWhile o.level st top).1) u rest = .ok res) :
    ∃ f, pComputeLoop d f st top (o.tok :: ts) = .ok res := by
  obtain ⟨f1, h1⟩ := hu
  obtain ⟨f2, h2⟩ := hl
  refine ⟨max f1 f2 + 1, ?_⟩
  unfold pComputeLoop
  simp only [o.ok]
  rw [(monoF d f1).pUnary _ _ _ h1 (Nat.le_max_left _ _)]
  exact (monoF d f2).pComputeLoop _ _ _ _ _ h2 (Nat.le_max_right _ _)

/-- the loop computes the abstract shift/reduce `go` -/
theorem loop_go (Follow : List Tok → Prop) (hF : ∀ (o : OpTok) r, Follow (o.tok :: r))
    (xs : List (OpTok × List Tok × Expr)) (hx : ∀ x ∈ xs, Operand d Follow x.2.1 x.2.2)
    (st : List (T Expr × Op)) (top : T Expr) (rest : List Tok) (hrest : NoComputeHead rest) (hfr : Follow rest) :
    ∃ f, pComputeLoop d f (embSt st) (embed top) (renderTail (xs.map fun x => (x.1, x.2.1)) ++ rest) =
      .ok (embed (go st top (xs.map fun x => (x.1.op, x.2.2))), rest) := by
  induction xs generalizing st top with
  | nil =>
    simp only [List.map_nil, renderTail, List.nil_append, go]
    rw [← collapse_embed]
    exact loop_stop d _ _ _ hrest
  | cons x xs ih =>
    obtain ⟨o, r, u⟩ := x
    simp only [List.map_cons, renderTail, List.cons_append, List.append_assoc, go]
    have hop : Operand d Follow r u := hx (o, r, u) (by simp)
    have hfollow : Follow (renderTail (xs.map fun x => (x.1, x.2.1)) ++ rest) := by
      cases xs with
      | nil => simpa [renderTail] using hfr
      | cons y ys => simp only [List.map_cons, renderTail, List.cons_append]; exact hF _ _
    have hu := hop _ hfollow
    apply loop_step d _ _ u o _ _ _ hu
    have := ih (fun x hm => hx x (by simp [hm])) (((SR.reduceWhile o.level st top).2, o.op) :: (SR.reduceWhile o.level st top).1) (T.leaf u)
    rw [reduceWhile_embed]
    simpa [embSt, embed, OpTok.op] using this

/-- **C02, compute levels, token form.**  For operands that each parse at the unary level and operator
tokens of the generated table, `_parse_compute_expression` returns the tree of the abstract shift/reduce —
which by `SR.shiftReduce_spec` is the unique tree with that in-order sequence that is well nested with
respect to the level table (left child's level ≤, right child's level <: left associativity). -/
theorem compute_eq_shiftReduce (Follow : List Tok → Prop) (hF : ∀ (o : OpTok) r, Follow (o.tok :: r))
    (r0 : List Tok) (u0 : Expr) (h0 : Operand d Follow r0 u0)
    (xs : List (OpTok × List Tok × Expr)) (hx : ∀ x ∈ xs, Operand d Follow x.2.1 x.2.2)
    (rest : List Tok) (hrest : NoComputeHead rest) (hfr : Follow rest) :
    ∃ f, pCompute d f (r0 ++ renderTail (xs.map fun x => (x.1, x.2.1)) ++ rest) =
      .ok (embed (shiftReduce u0 (xs.map fun x => (x.1.op, x.2.2))), rest) := by
  have hfollow : Follow (renderTail (xs.map fun x => (x.1, x.2.1)) ++ rest) := by
    cases xs with
    | nil => simpa [renderTail] using hfr
    | cons y ys => simp only [List.map_cons, renderTail, List.cons_append]; exact hF _ _
  obtain ⟨f1, h1⟩ := h0 _ hfollow
  obtain ⟨f2, h2⟩ := loop_go d Follow hF xs hx [] (T.leaf u0) rest hrest hfr
  refine ⟨max f1 f2 + 1, ?_⟩
  unfold pCompute
  rw [List.append_assoc, (monoF d f1).pUnary _ _ _ h1 (Nat.le_max_left _ _)]
  simp only []
  have := (monoF d f2).pComputeLoop _ _ _ _ _ h2 (Nat.le_max_right f1 f2)
  simpa [embSt, embed, shiftReduce] using this

/-- the abstract loop returns the unique well-nested tree over the sequence (restated from `SR`) -/
theorem precedence_tree_unique {α : Type} (e0 : α) (rest : List (Op × α)) (t : T α) :
    (t.flat = (e0, rest) ∧ t.WN) ↔ t = shiftReduce e0 rest := SR.shiftReduce_spec e0 rest t

/-- non-vacuity: a plain column followed by a non-operator token satisfies `Operand` -/
example : Operand .MYSQL (fun rest => rest = [Tok.single "FROM".toList 0]) [Tok.single "a".toList 2] (.column none "a") := by
  intro rest h; subst h
  exact ⟨4, by rfl⟩

end C02
