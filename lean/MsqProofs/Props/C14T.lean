import MsqProofs.Props.C03QL
import MsqProofs.Props.C03D
import MsqProofs.Props.C14
import MsqProofs.Props.C15
import MsqProofs.Props.C16b
import MsqProofs.Props.C16c
import MsqProofs.Lemmas.AnalyzeText2
/-!
# C14 / C15 / C16 on TEXTS: the analysis of `parse(print q)` is the specified analysis of `q`, for the nested fragment

The analyzer theorems (`Props/C14.lean`, `C15.lean`, `C16*.lean`) speak about trees; `C03.tquery_text` (`Props/C03QL.lean`) says that
the text the printer writes for a query `q` of the nested fragment `TQ.FragQ` goes through dialect pre-pass, lexer and
`parse_statements` back to `[q]`.  Here the two are composed — the statements are about what the driver commands `AN tables`,
`AN columns`, `AN lineage` (`MsqModel/Driver/CmdAnalyze.lean`) compute on the TEXT — and the specified table list is characterised
on the TOKENS of that text.

* `C14.tables_of_text` : text → `parse_statements(text)[0]` → `AllUsedQuoteTables` / the FROM-only / the JOIN-only analyzer give
  exactly `Spec.tablesOf q` / `fromTablesOf q` / `joinTablesOf q`, and `tablesOf q = AT.tableNames ts` for the token list `ts` the
  lexer makes of the text: the tokens after `FROM`, `JOIN` and the commas of a FROM list, at any bracket depth, once per occurrence,
  in textual order (`AT.tabL` looks only at the words FROM / JOIN / AS, the comma and bracket nesting).  The two variants on the FROM
  segment / the JOIN segment of each top-level branch (`C14.variant_tokens`).
* `C15.columns_of_text` : per-clause column usage of the parsed text = `Spec.specQuery c q` (hypotheses of the tree theorem).
* `C16.lineage_of_text` / `C16.lineage_error_of_text` : lineage of the parsed text = the lineage object built from `Flow`
  (`flowQ`), resp. the analysis error; `C16.insert_lineage_of_tokens` : INSERT … SELECT through `C03.tstatement` (token level).

Hypotheses: those of `C03.tquery_text` (fragment, lexable payloads `LexLink.LeafQ`, dialect pre-pass leaves the text alone — identity
for five dialects, `C03.hive_pre_query` for HIVE) and those of the tree theorems (hygiene for C16, `C15.Good` for C15).
-/
set_option linter.unusedVariables false
set_option linter.unusedSimpArgs false
open Lex PM Ast TP TS TQ LexLink Spec

namespace C14

/-- `parse_statements(text, dialect)[0]` on the printed text of a fragment query is that query -/
theorem firstStmt_text {d : Gen.D} {q : Query} {str : String} (h : parseStatementsText d str.toList = .ok [.select q]) :
    Drv.firstStmt d str.toList = .ok (.select q) := by
  simp [Drv.firstStmt, h, bind, Except.bind, pure, Except.pure]

/-- the top-level branches of a fragment query are fragment SELECTs -/
theorem frag_un_branches {d : Gen.D} : ∀ (us : List (String × Select)), FragUn d us = true → ∀ p ∈ us, FragS3 d p.2 = true
  | [], _, p, hp => by cases hp
  | (t, s) :: r, h, p, hp => by
    simp only [FragUn, Bool.and_eq_true] at h
    rcases List.mem_cons.1 hp with rfl | hp
    · exact h.1.2
    · exact frag_un_branches r h.2 p hp
theorem frag_branches {d : Gen.D} (q : Query) (h : FragQ d q = true) : ∀ s ∈ branches q, FragS3 d s = true := by
  cases q with
  | single s => intro x hx; simp only [branches, List.mem_singleton] at hx; subst hx; simpa [FragQ] using h
  | union ws s us =>
    simp only [FragQ, Bool.and_eq_true] at h
    intro x hx
    simp only [branches, List.mem_cons, List.mem_map] at hx
    rcases hx with rfl | ⟨p, hp, rfl⟩
    · exact h.1.1.2
    · exact frag_un_branches us h.1.2 p hp

/-- the FROM segment and the JOIN segment of the rendering of one SELECT (`toksS3` is, by definition,
`SELECT [DISTINCT] columns ++ fromSeg ++ joinSeg ++ WHERE … LIMIT …`) -/
def fromSeg (d : Gen.D) : Select → List Tok
  | .mk _ _ _ fr _ _ _ _ _ _ _ _ _ _ => toksFrom3 d noX fr
def joinSeg (d : Gen.D) : Select → List Tok
  | .mk _ _ _ _ _ js _ _ _ _ _ _ _ _ => toksJoins3 d noX js
theorem segments (d : Gen.D) (s : Select) : ∃ pre post, toksS3 d noX s = pre ++ (fromSeg d s ++ (joinSeg d s ++ post)) := by
  cases s with
  | mk ws dist cols fr lats js wh gb hv ob sb db cb lm =>
    refine ⟨opTok "SELECT" :: ((if dist then [opTok "DISTINCT"] else []) ++ toksCols3 d noX cols),
      toksOptE3 d noX "WHERE" wh ++ (toksGroup3 d noX gb ++ (toksOptE3 d noX "HAVING" hv ++ (toksOrder3 d noX ob ++ toksLimit lm))), ?_⟩
    simp only [toksS3, fromSeg, joinSeg, List.cons_append, List.append_assoc]

/-- **C14, the two variants on tokens**: for every top-level branch of a fragment query, the FROM-only tables are the table tokens of
the FROM segment of its rendering, the JOIN-only tables those of its JOIN segment (joined tables and the sub-queries of the ON
conditions), each at any bracket depth, in textual order -/
theorem variant_tokens (d : Gen.D) (q : Query) (hq : FragQ d q = true) :
    fromTablesOf q = (branches q).flatMap (fun s => AT.tableNames (fromSeg d s)) ∧
    joinTablesOf q = (branches q).flatMap (fun s => AT.tableNames (joinSeg d s)) := by
  have hb := frag_branches q hq
  have key : ∀ l : List Select, (∀ s ∈ l, FragS3 d s = true) →
      l.flatMap fromOfSelect = l.flatMap (fun s => AT.tableNames (fromSeg d s)) ∧
      l.flatMap joinOfSelect = l.flatMap (fun s => AT.tableNames (joinSeg d s)) := by
    intro l
    induction l with
    | nil => intro _; exact ⟨rfl, rfl⟩
    | cons s r ih =>
      intro h
      obtain ⟨i1, i2⟩ := ih (fun x hx => h x (by simp [hx]))
      have hs := h s (by simp)
      cases s with
      | mk ws dist cols fr lats js wh gb hv ob sb db cb lm =>
        obtain ⟨rfl, rfl, rfl, rfl, rfl⟩ := AT.fragS3_shape hs
        simp only [FragS3, Bool.and_eq_true] at hs
        have e1 := AT.tableNames_from noX fr hs.1.1.1.1.1.1.1.2
        have e2 := AT.tableNames_joins noX js hs.1.1.1.1.1.1.2
        simp only [List.flatMap_cons, fromOfSelect, joinOfSelect, fromSeg, joinSeg, e1, e2, i1, i2, and_self]
  exact key _ hb

/-- **C14.tables_of_text**: for every query of the nested fragment (any dialect), on the TEXT the printer writes: the text lexes to the
token rendering `ts`, `parse_statements(text)[0]` is the query, and the three table analyzers return exactly the specified lists — the
all-levels list being the table tokens the scanner `AT.tableNames` finds in `ts` (after FROM / JOIN / the commas of a FROM list, at any
bracket depth, once per occurrence, in textual order).  The last three conjuncts are the answers of the driver command `AN tables`. -/
theorem tables_of_text (d : Gen.D) (q : Query) (hq : FragQ d q = true) (hl : LeafQ d q)
    (hpre : dialectPre d (prQL d q) = prQL d q) :
    ∃ (str : String) (ts : List Tok), PR.prQ d q = .ok str ∧ Lex.lex Gen.cfgS (dialectPre d str.toList) = .ok ts ∧
      Drv.firstStmt d str.toList = .ok (.select q) ∧
      (Drv.firstStmt d str.toList >>= fun s => AN.allUsedTables s.toVal) = .ok ((AT.tableNames ts).map Tbl.toVal) ∧
      AT.tableNames ts = tablesOf q ∧
      (Drv.firstStmt d str.toList >>= fun s => AN.fromClauseTables s.toVal) = .ok ((fromTablesOf q).map Tbl.toVal) ∧
      (Drv.firstStmt d str.toList >>= fun s => AN.joinClauseTables s.toVal) = .ok ((joinTablesOf q).map Tbl.toVal) ∧
      Drv.anTables "all" d str.toList = Drv.showAn (.ok ((tablesOf q).map Tbl.toVal)) ∧
      Drv.anTables "from" d str.toList = Drv.showAn (.ok ((fromTablesOf q).map Tbl.toVal)) ∧
      Drv.anTables "join" d str.toList = Drv.showAn (.ok ((joinTablesOf q).map Tbl.toVal)) := by
  obtain ⟨str, ts, h1, h2, h3, _, _, h6⟩ := C03.tquery_text d q hq hl hpre
  have hf := firstStmt_text h6
  have hn : AT.tableNames ts = tablesOf q := by rw [h3]; exact AT.tableNames_toksQ noX q hq
  have ha := all_tables_exact_stmt q
  have hfr : AN.fromClauseTables (Stmt.select q).toVal = .ok ((fromTablesOf q).map Tbl.toVal) := by
    simpa [Stmt.toVal] using from_tables_exact q
  have hjn : AN.joinClauseTables (Stmt.select q).toVal = .ok ((joinTablesOf q).map Tbl.toVal) := by
    simpa [Stmt.toVal] using join_tables_exact q
  refine ⟨str, ts, h1, h2, hf, ?_, hn, ?_, ?_, ?_, ?_, ?_⟩
  · rw [hf, hn]; exact ha
  · rw [hf]; exact hfr
  · rw [hf]; exact hjn
  · simp [Drv.anTables, hf, ha]
  · simp [Drv.anTables, hf, hfr]
  · simp [Drv.anTables, hf, hjn]

end C14

namespace C16
open LN Flow

/-- **C16.lineage_of_text**: for a hygienic query of the nested fragment whose specified flow is `R`: the text the printer writes is
parsed back to the query, and the lineage analysis of that text (the driver's `AN lineage` call: `get_select_table_lineage` on
`parse_statements(text)[0]`, from empty stores, whatever the getter was asked before) returns the lineage object built from `R` —
output columns in order, numbered from 1, each with exactly the base columns that reach it -/
theorem lineage_of_text (d : Gen.D) (q : Query) (hq : FragQ d q = true) (hl : LeafQ d q)
    (hpre : dialectPre d (prQL d q) = prQL d q)
    (cat : Cat) (hy : Hygienic (LN.fuelFor q) q) (R : Rel) (h : flowQ cat (LN.fuelFor q) [] q = .ok R) (asked : List String) :
    ∃ (str : String) (st' : LN.St), PR.prQ d q = .ok str ∧ Drv.firstStmt d str.toList = .ok (.select q) ∧
      selectLineage cat (LN.fuelFor q) q { asked := asked } = .ok (mkLineage (number R 1) Lineage.empty, st') ∧
      Drv.lineageCall cat d str.toList asked =
        ("OK " ++ Drv.showVal (.list ((number R 1).map fun (c, s) => .tuple [c.toVal, .list (s.map LN.SrcCol.toVal)])), some st') := by
  obtain ⟨str, ts, h1, _, _, _, _, h6⟩ := C03.tquery_text d q hq hl hpre
  have hf := C14.firstStmt_text h6
  obtain ⟨st', hs⟩ := lineage_eq_flow_from cat (LN.fuelFor q) q hy R h { asked := asked } rfl rfl
  refine ⟨str, st', h1, hf, hs, ?_⟩
  simp only [Drv.lineageCall, hf, hs, lineage_columns]

/-- … and if the specification says "analysis error" (an unknown or ambiguous reference at any level), the analysis of the TEXT raises
the library's analysis error -/
theorem lineage_error_of_text (d : Gen.D) (q : Query) (hq : FragQ d q = true) (hl : LeafQ d q)
    (hpre : dialectPre d (prQL d q) = prQL d q)
    (cat : Cat) (hy : Hygienic (LN.fuelFor q) q) (h : flowQ cat (LN.fuelFor q) [] q = .error .analysis) :
    ∃ (str : String), PR.prQ d q = .ok str ∧ Drv.firstStmt d str.toList = .ok (.select q) ∧
      Drv.lineageCall cat d str.toList [] = (Err.analyzer.show, none) := by
  obtain ⟨str, ts, h1, _, _, _, _, h6⟩ := C03.tquery_text d q hq hl hpre
  have hf := C14.firstStmt_text h6
  have hs := analysis_error_raised cat (LN.fuelFor q) q hy h
  refine ⟨str, h1, hf, ?_⟩
  have e : ({ asked := [] } : LN.St) = {} := rfl
  simp only [Drv.lineageCall, hf, e, hs]

/-- **INSERT … SELECT at token level** (through `C03.tstatement`): the token rendering of a fragment statement `INSERT … (c₁, …, cₙ)
<query>` parses to that statement with the entry point's own fuel, and the lineage analysis of the parsed statement pairs the i-th
listed target column with exactly the sources of the i-th output column of the specified flow -/
theorem insert_lineage_of_tokens (d : Gen.D) (h : InsertHead) (q : Query) (hs : TDM.FragStmt d (.insertSelect h q) = true)
    (cat : Cat) (cs : List (Option String × String)) (hc : h.columns = some cs) (R : Rel)
    (hy : Hygienic (LN.fuelFor (setWiths h.withs q)) (setWiths h.withs q))
    (hflow : flowQ cat (LN.fuelFor (setWiths h.withs q)) [] (setWiths h.withs q) = .ok R)
    (hlen : cs.length = R.length) (hnd : (cs.map (·.2)).Nodup) :
    ∃ st', pStatement d (PM.fuelFor (TDM.toksStmt d (.insertSelect h q))) (TDM.toksStmt d (.insertSelect h q)) = .ok (.insertSelect h q, []) ∧
      insertLineage cat h q {} =
        .ok (List.zipWith (fun c r => (({ schema := h.table.schema, table := h.table.name, col := some c.2 } : SrcCol), r.2)) cs R, st') := by
  obtain ⟨st', hsel⟩ := lineage_eq_flow cat _ _ hy R hflow
  refine ⟨st', ?_, insert_pairing_ok cat h cs hc q R st' hsel hlen hnd⟩
  have := C03.tstatement_entry_fuel d (.insertSelect h q) hs [] rfl
  simpa using this

end C16

namespace C15
open AN

/-- **C15.columns_of_text**: for a query of the nested fragment, on the TEXT the printer writes: the per-clause column analysis of
`parse_statements(text)[0]` (the driver's `AN columns <clause>` call) returns exactly `Spec.specQuery c q` — for every top-level branch
the references written in that clause at the current level (never those of a bracketed sub-query), aliases and positions replaced in
GROUP BY / HAVING / ORDER BY.  `Good c s` are the hypotheses of the tree theorem `C15.query_exact_partial` (for the select list, JOIN
and WHERE: no clash with a select alias, finding F-C15-1; nothing for HAVING). -/
theorem columns_of_text (d : Gen.D) (q : Query) (hq : FragQ d q = true) (hl : LeafQ d q)
    (hpre : dialectPre d (prQL d q) = prQL d q) (c : AN.Clause) (hg : ∀ s ∈ branchesOf q, Good c s) :
    ∃ (str : String), PR.prQ d q = .ok str ∧ Drv.firstStmt d str.toList = .ok (.select q) ∧
      (Drv.firstStmt d str.toList >>= currentColsStmt c) = .ok (specQuery c q) ∧
      ∀ kind, kind ≠ "hash" → AN.Clause.ofName? kind = some c →
        Drv.anColumns kind d str.toList = Drv.showAn (.ok ((specQuery c q).map QCol.toVal)) := by
  obtain ⟨str, ts, h1, _, _, _, _, h6⟩ := C03.tquery_text d q hq hl hpre
  have hf := C14.firstStmt_text h6
  have hc := query_exact_partial c q hg
  refine ⟨str, h1, hf, ?_, ?_⟩
  · rw [hf]; exact hc
  · intro kind hk hn
    simp [Drv.anColumns, hf, hk, hn, currentColsStmt, hc]
    rfl

end C15

/-! ## non-vacuity -/
namespace C14T
open C03 (q1 q2 q3 q4 q5 q6 qx qa leafQ_of_B leafQB)

/-- what the lexer makes of a text (after the dialect pre-pass) -/
def lexOf (d : Gen.D) (s : String) : List Tok := match Lex.lex Gen.cfgS (dialectPre d s.toList) with | .ok ts => ts | _ => []

/-- `SELECT o.k, d FROM (SELECT q.s AS k FROM (SELECT a + b AS s FROM t) AS q) AS o LEFT JOIN u ON o.k = u.a` -/
def nested : Query :=
  .single (C16.selJ [(.column (some "o") "k", none), (.column none "d", none)]
    [C16.der (.single (C16.selJ [(.column (some "q") "s", some "k")]
      [C16.der (.single (C16.selJ [(.compute (.column none "a") "PLUS" (.column none "b"), some "s")] [C16.tbl "t"] [])) "q"] [])) "o"]
    [.mk "LEFT_JOIN" (C16.tbl "u") (some (.on (.compare "EQ" (.column (some "o") "k") (.column (some "u") "a"))))])

-- tests (compiled evaluation): on the printed texts of the sample queries (scalar sub-queries, IN / EXISTS sub-queries, derived tables,
-- set operations, joins, schema-qualified tables), three dialects: the table tokens of the LEXED text are the specified list, and the
-- driver command `AN tables` answers with it
#guard [q1, q2, q3, q4, q5, q6, qx, nested].all fun q => [Gen.D.MYSQL, .HIVE, .ORACLE].all fun d =>
  (!FragQ d q) || (match PR.prQ d q with
    | .ok str => AT.tableNames (lexOf d str) == tablesOf q &&
        Drv.anTables "all" d str.toList == Drv.showAn (.ok ((tablesOf q).map Tbl.toVal)) &&
        Drv.anTables "from" d str.toList == Drv.showAn (.ok ((fromTablesOf q).map Tbl.toVal)) &&
        Drv.anTables "join" d str.toList == Drv.showAn (.ok ((joinTablesOf q).map Tbl.toVal))
    | _ => false)
#guard [q1, q2, q3, q4, q5, q6, qx, nested].all fun q => FragQ .MYSQL q && leafQB .MYSQL q
#guard (tablesOf q2).map (fun t => (t.schema, t.name)) = [(none, "t"), (none, "u"), (some "s", "tbl"), (none, "u")] &&
  (fromTablesOf q2).map (fun t => (t.schema, t.name)) = [(none, "t"), (none, "u")] &&
  (joinTablesOf q2).map (fun t => (t.schema, t.name)) = [(some "s", "tbl"), (none, "u")]
#guard Drv.anTables "all" .MYSQL (prQL .MYSQL q2) ==
  "OK L[StandardTable{schema_name=None,table_name=\"t\"},StandardTable{schema_name=None,table_name=\"u\"},StandardTable{schema_name=\"s\",table_name=\"tbl\"},StandardTable{schema_name=None,table_name=\"u\"}]"
-- the scanner on a hand-written text (aliases without AS, a back-quoted schema-qualified name, sub-queries in ON / WHERE, a set
-- operation): what it finds is what the model of the analyzer reports
def handText : String := "SELECT a FROM t1, (SELECT b FROM t2 x JOIN t3 ON x.c = t3.c) d LEFT JOIN `s.t5` AS y ON y.a IN (SELECT c FROM t4 WHERE EXISTS (SELECT 1 FROM t6)) WHERE a > (SELECT max(z) FROM t7) UNION SELECT 1 FROM t8"
#guard (AT.tableNames (lexOf .MYSQL handText)).map (fun t => (t.schema, t.name)) =
    [(none, "t1"), (none, "t2"), (none, "t3"), (some "s", "t5"), (none, "t4"), (none, "t6"), (none, "t7"), (none, "t8")] &&
  C14.tablesOfText .MYSQL handText == some ((AT.tableNames (lexOf .MYSQL handText)).map fun t => (t.schema, t.name))
-- the scanner looks at nothing but FROM / JOIN / AS / the comma and brackets: commas outside a FROM list announce no table
#guard (AT.tableNames (lexOf .MYSQL "SELECT f(a, b), c FROM t GROUP BY a, b ORDER BY a, b LIMIT 1, 2")).map (·.name) = ["t"]
-- C15 / C16 on texts
#guard Drv.anColumns "where" .MYSQL (prQL .MYSQL q1) == Drv.showAn (.ok ((specQuery .where_ q1).map AN.QCol.toVal))
#guard (specQuery .where_ q1).map (fun c => (c.table, c.name)) = [(none, some "a"), (none, some "b")]
#guard (Drv.lineageCall C16.cat2 .MYSQL (prQL .MYSQL nested) []).1 ==
  "OK L[T[StandardColumn{column_idx=1,column_name=\"k\"},L[SourceColumn{schema_name=None,table_name=\"t\",column_name=\"a\"},SourceColumn{schema_name=None,table_name=\"t\",column_name=\"b\"}]],T[StandardColumn{column_idx=2,column_name=\"d\"},L[SourceColumn{schema_name=None,table_name=\"u\",column_name=\"d\"}]]]"

-- instances of the theorems, every hypothesis decided by the kernel
set_option maxRecDepth 100000 in
example : ∃ (str : String) (ts : List Tok), PR.prQ .MYSQL q5 = .ok str ∧ Lex.lex Gen.cfgS (dialectPre .MYSQL str.toList) = .ok ts ∧
    Drv.firstStmt .MYSQL str.toList = .ok (.select q5) ∧
    (Drv.firstStmt .MYSQL str.toList >>= fun s => AN.allUsedTables s.toVal) = .ok ((AT.tableNames ts).map Tbl.toVal) ∧
    AT.tableNames ts = tablesOf q5 ∧
    (Drv.firstStmt .MYSQL str.toList >>= fun s => AN.fromClauseTables s.toVal) = .ok ((fromTablesOf q5).map Tbl.toVal) ∧
    (Drv.firstStmt .MYSQL str.toList >>= fun s => AN.joinClauseTables s.toVal) = .ok ((joinTablesOf q5).map Tbl.toVal) ∧
    Drv.anTables "all" .MYSQL str.toList = Drv.showAn (.ok ((tablesOf q5).map Tbl.toVal)) ∧
    Drv.anTables "from" .MYSQL str.toList = Drv.showAn (.ok ((fromTablesOf q5).map Tbl.toVal)) ∧
    Drv.anTables "join" .MYSQL str.toList = Drv.showAn (.ok ((joinTablesOf q5).map Tbl.toVal)) :=
  C14.tables_of_text .MYSQL q5 (by decide) (leafQ_of_B _ _ (by decide +kernel)) (C01.dialectPre_id _ (by decide) (by decide) _)
example : (tablesOf q5).map (fun t => (t.schema, t.name)) = [(none, "u"), (none, "u")] := by decide
/-- the token scan itself, in the kernel: the rendering of `q2` (a set operation as derived table, two joins, a schema-qualified table) -/
example : (AT.tableToks (toksQ .MYSQL noX q2)).map Tok.source =
    ["`t`".toList, "`u`".toList, "`s.tbl`".toList, "`u`".toList] := by decide +kernel
set_option maxRecDepth 100000 in
example : AT.tableNames (toksQ .HIVE noX q1) = tablesOf q1 := AT.tableNames_toksQ noX q1 (by decide +kernel)

/-- a Bool form of "the specified flow exists" -/
def flowIsOk (r : Except Flow.FErr Spec.Rel) : Bool := match r with | .ok _ => true | .error _ => false
theorem flowIsOk_sound {r : Except Flow.FErr Spec.Rel} (h : flowIsOk r = true) : ∃ R, r = .ok R := by
  cases r with
  | ok R => exact ⟨R, rfl⟩
  | error e => cases h
set_option maxRecDepth 100000 in
example : ∃ (R : Spec.Rel) (str : String) (st' : LN.St), PR.prQ .MYSQL nested = .ok str ∧ Drv.firstStmt .MYSQL str.toList = .ok (.select nested) ∧
    LN.selectLineage C16.cat2 (LN.fuelFor nested) nested { asked := [] } = .ok (LN.mkLineage (C16.number R 1) LN.Lineage.empty, st') ∧
    Drv.lineageCall C16.cat2 .MYSQL str.toList [] =
      ("OK " ++ Drv.showVal (.list ((C16.number R 1).map fun (c, s) => .tuple [c.toVal, .list (s.map LN.SrcCol.toVal)])), some st') := by
  obtain ⟨R, hR⟩ := flowIsOk_sound (r := Flow.flowQ C16.cat2 (LN.fuelFor nested) [] nested) (by decide +kernel)
  exact ⟨R, C16.lineage_of_text .MYSQL nested (by decide) (leafQ_of_B _ _ (by decide +kernel))
    (C01.dialectPre_id _ (by decide) (by decide) _) C16.cat2 (C16.hyg_sound _ (by decide +kernel)) R hR []⟩
/-- set operations and wildcards (as far as the specification `flowQ` covers them): `SELECT x.a AS k, x.b FROM t x UNION ALL SELECT y.d, y.a
FROM u y` and `SELECT * FROM t1, t2` on their printed texts -/
theorem lineage_text_instance (q : Query) (hq : FragQ .MYSQL q = true) (hl : leafQB .MYSQL q = true) (hh : C16.hyg q = true)
    (hf : flowIsOk (Flow.flowQ C16.cat2 (LN.fuelFor q) [] q) = true) :
    ∃ (R : Spec.Rel) (str : String) (st' : LN.St), Flow.flowQ C16.cat2 (LN.fuelFor q) [] q = .ok R ∧ PR.prQ .MYSQL q = .ok str ∧
      Drv.lineageCall C16.cat2 .MYSQL str.toList [] =
        ("OK " ++ Drv.showVal (.list ((C16.number R 1).map fun (c, s) => .tuple [c.toVal, .list (s.map LN.SrcCol.toVal)])), some st') := by
  obtain ⟨R, hR⟩ := flowIsOk_sound hf
  obtain ⟨str, st', a, _, _, b⟩ := C16.lineage_of_text .MYSQL q hq (leafQ_of_B _ _ hl) (C01.dialectPre_id _ (by decide) (by decide) _)
    C16.cat2 (C16.hyg_sound _ hh) R hR []
  exact ⟨R, str, st', hR, a, b⟩
set_option maxRecDepth 100000 in
example := lineage_text_instance C16.unionOK (by decide) (by decide +kernel) (by decide +kernel) (by decide +kernel)
set_option maxRecDepth 100000 in
example := lineage_text_instance C16.starAll (by decide) (by decide +kernel) (by decide +kernel) (by decide +kernel)
#guard (Drv.lineageCall C16.cat2 .MYSQL (prQL .MYSQL C16.unionOK) []).1 ==
  "OK L[T[StandardColumn{column_idx=1,column_name=\"k\"},L[SourceColumn{schema_name=None,table_name=\"t\",column_name=\"a\"},SourceColumn{schema_name=None,table_name=\"u\",column_name=\"d\"}]],T[StandardColumn{column_idx=2,column_name=\"b\"},L[SourceColumn{schema_name=None,table_name=\"t\",column_name=\"b\"},SourceColumn{schema_name=None,table_name=\"u\",column_name=\"a\"}]]]"
set_option maxRecDepth 100000 in
example : ∃ (str : String), PR.prQ .MYSQL q1 = .ok str ∧ Drv.firstStmt .MYSQL str.toList = .ok (.select q1) ∧
    (Drv.firstStmt .MYSQL str.toList >>= AN.currentColsStmt .having) = .ok (specQuery .having q1) ∧
    ∀ kind, kind ≠ "hash" → AN.Clause.ofName? kind = some .having →
      Drv.anColumns kind .MYSQL str.toList = Drv.showAn (.ok ((specQuery .having q1).map AN.QCol.toVal)) :=
  C15.columns_of_text .MYSQL q1 (by decide) (leafQ_of_B _ _ (by decide +kernel)) (C01.dialectPre_id _ (by decide) (by decide) _) .having
    (fun _ _ => trivial)

end C14T
