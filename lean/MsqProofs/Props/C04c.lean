import MsqProofs.Props.C04b
import MsqProofs.Lemmas.LexRetain2
import MsqProofs.Lemmas.LexRetain2Text
import MsqProofs.Oblig.RetCfg0
import MsqProofs.Oblig.RetCfg1
import MsqProofs.Oblig.RetCfg2
import MsqProofs.Oblig.RetCfg3
import MsqProofs.Oblig.RetCfg4
import MsqProofs.Oblig.RetCfg5
import MsqProofs.Oblig.RetCfg6
import MsqProofs.Oblig.RetCfg7
/-!
# C04 (d) — retention under all 8 option settings, and group rendering

The structural scanner of `LexScan.lean` (quotes with their escapes, the three comment forms, where a bare token ends —
no table, no windows, no stack) plus ONE character of look-ahead classifies every character occurrence of a text
(`Scan.classes`, `Scan.classOf`): `bracket e` (a bracket read as a bracket, with its event), `comment`, `blank`,
`lbreak` (between tokens), `tok` (everything else).  A setting `i = 4·IGNORE_SPACE + 2·IGNORE_LINEBREAK + IGNORE_COMMENT`
ignores the classes `ign i`.

**`C04.retained_marked`** (all 8 settings, every accepted text): the rendering of the token list in the *marked*
alphabet (`msrcL`: `AMTBase.source`, the brackets of a group written as the events `opn … cls k`) IS the pre-processed
input with exactly the characters of the ignored classes removed (`Scan.eraseM`), every other character in place, the
brackets read as brackets replaced by their events.  Projections:

* `retained_all` — `sourceL ts = erase (ign i) (pre raw)`: the concatenated token texts are the input without the
  ignored classes, brackets read as brackets in ROUND form (F-C04-2; brackets inside quotes and comments as written);
* `leaves_all` / `leaves_are_the_covered_characters` — the concatenation of the LEAF token texts is exactly the
  subsequence of the characters whose class is neither a bracket nor ignored: what is not covered by a token is
  bracket characters and, per setting, exactly the ignored ones of blank / line break / comment;
* `skeleton_of_marked` — the events of the marked text are the bracket skeleton of the tree (C04.bracket_skeleton again);
* `erase_removes_exactly_ignored` — `eraseM` as a filter on the classified text.

Group rendering (`group_rendering`, `group_in_text`): every group of the tree, at any depth, renders as `(` children
`)` whatever its kind, and its marked rendering `opn … cls k` is a contiguous piece of the marked erased text, balanced
inside: the group starts at a character read as an opening bracket (`(` or `[` — the kind of the opening bracket is not
recorded, F-C04-1), ends at the matching closing one whose kind is the group's (`)`: paren, `]`: slice), and everything
between them that is not ignored is inside the group.

Findings visible: F-C04-1 (`Ev.opn` is kind-less, `cls k` is the kind of the CLOSING bracket), F-C04-2 (`MC.round`
renders `cls slice` as `)` and an `opn` that was `[` as `(`: `witness_square_comes_back_round`), F-C04-3 (the statement
is about `pre raw`: `witness_tab_erased`).
-/
namespace C04
open Lex Scan Spec

/-- the classes setting `i` ignores -/
def ign (i : Fin 8) : Ign := Ign.ofBits i.val

/-- the eight settings, spelled out: (blank, line break, comment) ignored -/
theorem ign_table : ign 0 = ⟨false, false, false⟩ ∧ ign 1 = ⟨false, false, true⟩ ∧ ign 2 = ⟨false, true, false⟩ ∧
    ign 3 = ⟨false, true, true⟩ ∧ ign 4 = ⟨true, false, false⟩ ∧ ign 5 = ⟨true, false, true⟩ ∧
    ign 6 = ⟨true, true, false⟩ ∧ ign 7 = ⟨true, true, true⟩ := by decide

theorem retSim (i : Fin 8) : retCheck (ign i) (cfgOf i) = true := by
  match i with
  | 0 => exact Oblig.retSim_cfg0 | 1 => exact Oblig.retSim_cfg1 | 2 => exact Oblig.retSim_cfg2
  | 3 => exact Oblig.retSim_cfg3 | 4 => exact Oblig.retSim_cfg4 | 5 => exact Oblig.retSim_cfg5
  | 6 => exact Oblig.retSim_cfg6 | 7 => exact Oblig.retSim_cfg7

/-- **C04.retained_marked** (d): all 8 settings, every accepted text. -/
theorem retained_marked (i : Fin 8) (raw : List Char) (ts : List Tok) (h : lex (cfgOf i) raw = .ok ts) :
    msrcL ts = eraseM (ign i) ((cfgOf i).pre raw) := by
  match i with
  | 0 => exact lex_mretained _ _ _ _ Oblig.tableOK_cfg0 (summarizable 0) (retSim 0) (lookup_norm 0) (scanSim 0) (depth_le 0) raw ts h
  | 1 => exact lex_mretained _ _ _ _ Oblig.tableOK_cfg1 (summarizable 1) (retSim 1) (lookup_norm 1) (scanSim 1) (depth_le 1) raw ts h
  | 2 => exact lex_mretained _ _ _ _ Oblig.tableOK_cfg2 (summarizable 2) (retSim 2) (lookup_norm 2) (scanSim 2) (depth_le 2) raw ts h
  | 3 => exact lex_mretained _ _ _ _ Oblig.tableOK_cfg3 (summarizable 3) (retSim 3) (lookup_norm 3) (scanSim 3) (depth_le 3) raw ts h
  | 4 => exact lex_mretained _ _ _ _ Oblig.tableOK_cfg4 (summarizable 4) (retSim 4) (lookup_norm 4) (scanSim 4) (depth_le 4) raw ts h
  | 5 => exact lex_mretained _ _ _ _ Oblig.tableOK_cfg5 (summarizable 5) (retSim 5) (lookup_norm 5) (scanSim 5) (depth_le 5) raw ts h
  | 6 => exact lex_mretained _ _ _ _ Oblig.tableOK_cfg6 (summarizable 6) (retSim 6) (lookup_norm 6) (scanSim 6) (depth_le 6) raw ts h
  | 7 => exact lex_mretained _ _ _ _ Oblig.tableOK_cfg7 (summarizable 7) (retSim 7) (lookup_norm 7) (scanSim 7) (depth_le 7) raw ts h

/-- **C04.retained_all** (d): under every setting the rendered token texts concatenate to the pre-processed input with
exactly the characters of the ignored classes removed and the brackets read as brackets in round form. -/
theorem retained_all (i : Fin 8) (raw : List Char) (ts : List Tok) (h : lex (cfgOf i) raw = .ok ts) :
    sourceL ts = erase (ign i) ((cfgOf i).pre raw) := by
  rw [erase, ← retained_marked i raw ts h, msrcL_round]

/-- the leaf token texts concatenate to the characters kept as written (no structural brackets) -/
theorem leaves_all (i : Fin 8) (raw : List Char) (ts : List Tok) (h : lex (cfgOf i) raw = .ok ts) :
    (leavesL ts).flatten = (eraseM (ign i) ((cfgOf i).pre raw)).filterMap MC.ch? := by
  rw [← retained_marked i raw ts h, msrcL_leaves]

/-- the bracket events of the marked erased text are the bracket skeleton of the tree -/
theorem skeleton_of_marked (i : Fin 8) (raw : List Char) (ts : List Tok) (h : lex (cfgOf i) raw = .ok ts) :
    skelL ts = (eraseM (ign i) ((cfgOf i).pre raw)).filterMap MC.ev? := by
  rw [← retained_marked i raw ts h, msrcL_skel]

/-! ## exactly the ignored classes -/

/-- `eraseM` is a filter on the classified text: a bracket read as a bracket becomes its event, a character of an
ignored class is removed, every other character is kept as written -/
theorem erase_removes_exactly_ignored (ig : Ign) (text : List Char) :
    eraseM ig text = ((text.zip (classes text)).map fun p =>
      match p.2 with
      | .bracket e => [MC.ev e]
      | k => if ig.drops k then [] else [MC.ch p.1]).flatten := by
  rw [eraseM, eraseA_eq_classes, classes]
  congr 1
  apply List.map_congr_left
  intro p _
  obtain ⟨c, k⟩ := p
  cases k <;> simp only [outK] <;> first | rfl | (split <;> simp_all [OutK.out])

/-- a character occurrence is covered by a (leaf) token: it is no bracket read as a bracket and its class is not
ignored -/
def covered (ig : Ign) : CC → Bool
  | .bracket _ => false
  | k => !ig.drops k

theorem out_ch (ig : Ign) (c : Char) (k : CC) :
    ((outK ig k).out c).filterMap MC.ch? = if covered ig k then [c] else [] := by
  obtain ⟨sp, lb, cm⟩ := ig
  cases k <;> cases sp <;> cases lb <;> cases cm <;> rfl

theorem filterMap_ch_flatten (ig : Ign) (l : List (Char × CC)) :
    ((l.map fun p => (outK ig p.2).out p.1).flatten).filterMap MC.ch? = (l.filter fun p => covered ig p.2).map (·.1) := by
  induction l with
  | nil => rfl
  | cons p l ih =>
    simp only [List.map_cons, List.flatten_cons, List.filterMap_append, ih, out_ch, List.filter_cons]
    split <;> simp

/-- **C04.leaves_are_the_covered_characters**: the concatenation of the leaf token texts is exactly the subsequence of
the characters of the pre-processed input that are no brackets (read as brackets) and whose class is not ignored.
Hence what no token covers is: bracket characters, and — per setting exactly — the ignored ones among blanks, line
breaks and comment characters. -/
theorem leaves_are_the_covered_characters (i : Fin 8) (raw : List Char) (ts : List Tok)
    (h : lex (cfgOf i) raw = .ok ts) :
    (leavesL ts).flatten =
      ((((cfgOf i).pre raw).zip (classes ((cfgOf i).pre raw))).filter fun p => covered (ign i) p.2).map (·.1) := by
  rw [leaves_all i raw ts h, eraseM, eraseA_eq_classes, classes, filterMap_ch_flatten]

/-- under setting 0 every character that is no bracket is covered; under setting 7 exactly the `tok` characters -/
theorem covered_cfg0 (k : CC) : covered (ign 0) k = (match k with | .bracket _ => false | _ => true) := by
  cases k <;> rfl

theorem covered_cfg7 (k : CC) : covered (ign 7) k = (k == .tok) := by
  cases k <;> rfl

/-- consistency with `retained_concat` (setting 0): with nothing ignored the erasure is `roundBrackets`, for EVERY
text (so `retained_concat` is the instance `i = 0` of `retained_all`) -/
theorem erase_cfg0_roundBrackets (text : List Char) : erase (ign 0) text = roundBrackets text :=
  erase_none_roundBrackets text

/-! ## group rendering -/

/-- the token `g` occurs in the token list, at any depth -/
inductive Occ (g : Tok) : List Tok → Prop
  | here (a b : List Tok) : Occ g (a ++ g :: b)
  | inside (a b : List Tok) (k : GK) (cs : List Tok) (mk : Nat) : Occ g cs → Occ g (a ++ .group k cs mk :: b)

theorem occ_marked (g : Tok) (ts : List Tok) (h : Occ g ts) : ∃ p q, msrcL ts = p ++ Tok.msrc g ++ q := by
  induction h with
  | here a b => exact ⟨msrcL a, msrcL b, by simp [msrcL_append, msrcL]⟩
  | inside a b k cs mk _ ih =>
    obtain ⟨p, q, e⟩ := ih
    exact ⟨msrcL a ++ .ev .opn :: p, q ++ .ev (.cls k) :: msrcL b, by simp [msrcL_append, msrcL, Tok.msrc, e]⟩

/-- **C04.group_rendering**: a group of either kind renders with ROUND brackets around the rendering of its children
(`amt_node.py:115`; F-C04-2 for `[ … ]`), and its marked rendering is `opn`, the children, `cls k`, balanced inside. -/
theorem group_rendering (k : GK) (cs : List Tok) (mk : Nat) :
    Tok.source (.group k cs mk) = '(' :: (sourceL cs ++ [')']) ∧
    Tok.msrc (.group k cs mk) = .ev .opn :: (msrcL cs ++ [.ev (.cls k)]) ∧
    (msrcL cs).map MC.round = sourceL cs ∧
    depthOK 0 ((msrcL cs).filterMap MC.ev?) = true := by
  refine ⟨rfl, rfl, msrcL_round cs, ?_⟩
  rw [msrcL_skel]; exact depthOK_tree cs

/-- **C04.group_in_text**: every group of the tree of an accepted text, at any depth, is a contiguous piece of the
marked erased input: it starts at a bracket event `opn` (a `(` or `[` read as a bracket), ends at the event `cls k` of
its own kind (F-C04-1: the kind of the CLOSING bracket), and the piece between them — balanced — is exactly its
children; rendered, the piece is `(` … `)`. -/
theorem group_in_text (i : Fin 8) (raw : List Char) (ts : List Tok) (h : lex (cfgOf i) raw = .ok ts)
    (k : GK) (cs : List Tok) (mk : Nat) (ho : Occ (.group k cs mk) ts) :
    ∃ p q, eraseM (ign i) ((cfgOf i).pre raw) = p ++ (.ev .opn :: (msrcL cs ++ [.ev (.cls k)])) ++ q ∧
      sourceL ts = p.map MC.round ++ ('(' :: (sourceL cs ++ [')'])) ++ q.map MC.round ∧
      depthOK 0 ((msrcL cs).filterMap MC.ev?) = true := by
  obtain ⟨p, q, e⟩ := occ_marked _ ts ho
  refine ⟨p, q, ?_, ?_, (group_rendering k cs mk).2.2.2⟩
  · rw [← retained_marked i raw ts h, e]; rfl
  · rw [← msrcL_round ts, e]
    simp [Tok.msrc, MC.round, msrcL_round]

/-- the class `bracket e` is only ever given to a bracket CHARACTER, and the event says which: `opn` for `(` and `[`
(kind-less: F-C04-1), `cls paren` for `)`, `cls slice` for `]` -/
theorem bracket_class_is_bracket_char (μ : Mode) (c : Char) (nx : Option Nat) (e : Ev)
    (h : classOf μ (norm c.toNat) nx = .bracket e) :
    (e = .opn ∧ (c = '(' ∨ c = '[')) ∨ (e = .cls .paren ∧ c = ')') ∨ (e = .cls .slice ∧ c = ']') :=
  bracket_class_char μ c nx e h

/-- the closing bracket character of a group kind -/
def closer : GK → Char
  | .paren => ')'
  | .slice => ']'

/-- **C04.group_span** (text level): every group of the tree of an accepted text, at any depth, sits on a piece
`o t2 c` of the pre-processed input: `o` is a `(` or a `[` read as a bracket (either, whatever the kind of the group:
F-C04-1), `c` is the closing bracket character of the group's kind, read as a bracket, and the marked rendering of the
children is exactly the erasure of the text `t2` between the two (read in the mode the scanner is in after `o`, with
`c` as the character that follows); rendered: `(`, that erased text with round brackets, `)` (F-C04-2). -/
theorem group_span (i : Fin 8) (raw : List Char) (ts : List Tok) (h : lex (cfgOf i) raw = .ok ts)
    (k : GK) (cs : List Tok) (mk : Nat) (ho : Occ (.group k cs mk) ts) :
    ∃ t1 o t2 c t3, (cfgOf i).pre raw = t1 ++ o :: (t2 ++ c :: t3) ∧ (o = '(' ∨ o = '[') ∧ c = closer k ∧
      msrcL cs = eraseA (ign i) (step (scanAll .N t1).1 (norm o.toNat)).1 t2 (some (norm c.toNat)) ∧
      Tok.source (.group k cs mk) =
        '(' :: ((eraseA (ign i) (step (scanAll .N t1).1 (norm o.toNat)).1 t2 (some (norm c.toNat))).map MC.round ++ [')']) := by
  obtain ⟨p, q, e1, _, _⟩ := group_in_text i raw ts h k cs mk ho
  have e2 : eraseA (ign i) .N ((cfgOf i).pre raw) none = p ++ .ev .opn :: (msrcL cs ++ .ev (.cls k) :: q) := by
    rw [← eraseM, e1]; simp
  obtain ⟨t1, o, b, hb, _, hco, hrest⟩ := eraseA_split (ign i) none .opn _ _ .N p e2
  obtain ⟨t2, c, t3, hb2, hmid, hcc, _⟩ := eraseA_split (ign i) none (.cls k) q b _ (msrcL cs) hrest
  refine ⟨t1, o, t2, c, t3, by rw [hb, hb2], ?_, ?_, hmid.symm, ?_⟩
  · rcases bracket_class_char _ o _ _ hco with ⟨_, ho'⟩ | ⟨he, _⟩ | ⟨he, _⟩
    · exact ho'
    · cases he
    · cases he
  · rcases bracket_class_char _ c _ _ hcc with ⟨he, _⟩ | ⟨he, hc⟩ | ⟨he, hc⟩
    · cases he
    · cases he; exact hc
    · cases he; exact hc
  · rw [hmid, msrcL_round]; rfl

/-! ## non-vacuity and the findings on the model (kernel-evaluated) -/

/-- the classes of a small text: a blank, a line comment up to (not including) its line break, brackets, a block
comment, a quoted `#`, a `-` that opens no comment -/
example : classes "a -- x\n(b) /**/ '#' -1".toList =
    [.tok, .blank, .comment, .comment, .comment, .comment, .lbreak, .bracket .opn, .tok, .bracket (.cls .paren), .blank,
     .comment, .comment, .comment, .comment, .blank, .tok, .tok, .tok, .blank, .tok, .tok] := by decide +kernel

/-- the same text under four settings: what the lexer renders is the erased text -/
example :
    erase (ign 0) "a -- x\n[b) /**/ '#' -1".toList = "a -- x\n(b) /**/ '#' -1".toList ∧
    erase (ign 1) "a -- x\n[b) /**/ '#' -1".toList = "a \n(b)  '#' -1".toList ∧
    erase (ign 6) "a -- x\n[b) /**/ '#' -1".toList = "a-- x(b)/**/'#'-1".toList ∧
    erase (ign 7) "a -- x\n[b) /**/ '#' -1".toList = "a(b)'#'-1".toList ∧
    (match lex (cfgOf 7) "a -- x\n[b) /**/ '#' -1".toList with
      | .ok ts => sourceL ts == "a(b)'#'-1".toList | .error _ => false) = true ∧
    (match lex (cfgOf 1) "a -- x\n[b) /**/ '#' -1".toList with
      | .ok ts => sourceL ts == "a \n(b)  '#' -1".toList | .error _ => false) = true := by decide +kernel

/-- F-C04-2 on the model, through the erasure: square brackets read as brackets come back round, inside quotes they
stay (shipped setting) -/
theorem witness_square_comes_back_round :
    erase (ign 7) "a[1] '[' ".toList = "a(1)'['".toList ∧
    eraseM (ign 7) "[a)".toList = [.ev .opn, .ch 'a', .ev (.cls .paren)] := by decide +kernel

/-- F-C04-3 on the model: the statement is about the pre-processed text — a TAB is a blank there and is erased or
comes back as a blank -/
theorem witness_tab_erased :
    (cfgOf 7).pre "a\tb".toList = "a b".toList ∧ erase (ign 7) ((cfgOf 7).pre "a\tb".toList) = "ab".toList ∧
    erase (ign 0) ((cfgOf 0).pre "a\tb".toList) = "a b".toList := by decide +kernel

/-- each table satisfies the obligation of its own setting only (a sample of the 56 other pairs) -/
example : retCheck (ign 7) (cfgOf 0) = false ∧ retCheck (ign 0) (cfgOf 7) = false ∧ retCheck (ign 3) (cfgOf 1) = false ∧
    retCheck (ign 5) (cfgOf 4) = false ∧ retCheck (ign 6) (cfgOf 7) = false := by decide +kernel

/-- a group inside a group: the occurrence relation is inhabited on a real tree -/
example : Occ (.group .slice [.single ['1'] 72] 512)
    [.single ['f'] 2, .group .paren [.single ['a'] 2, .group .slice [.single ['1'] 72] 512] 4] :=
  .inside [.single ['f'] 2] [] .paren _ 4 (.here [.single ['a'] 2] [])

/-- the span of the inner group of `f(a[1 ], 2)` under the shipped setting: the text between `[` and `]` is `1 `, its
erasure `1` -/
example : eraseA (ign 7) (step (scanAll .N "f(a".toList).1 (norm '['.toNat)).1 "1 ".toList (some (norm ']'.toNat)) =
    [.ch '1'] ∧ lexesTo (lex (cfgOf 7) "f(a[1 ], 2)".toList)
      [.single ['f'] 2, .group .paren [.single ['a'] 2, .group .slice [.single ['1'] 72] 512, .single [','] 0,
        .single ['2'] 72] 4] = true := by decide +kernel

end C04
