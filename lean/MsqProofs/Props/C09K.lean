import MsqProofs.Props.C09P
import MsqProofs.Lemmas.ParseKCase8
/-!
# C09, parser half — the SHARP form for the lexer's RESERVED WORDS: their letter case does not change the tree

`Props/C09P.lean` proves the `≈` form: token lists that differ in the letter case of ANY words (`CEL`) give results that are equal after
mapping EVERY stored text through `str.upper()`.  This file is about the words whose letter case a reader expects to be irrelevant
altogether: the RESERVED WORDS of the lexer — the entries of its keyword table that get no mark (`PM.reservedL`, 24 of the 27:
SELECT FROM LATERAL VIEW LEFT RIGHT INNER OUTER FULL JOIN ON WHERE GROUP BY HAVING ORDER LIMIT UNION EXCEPT MINUS INTERSECT AND NOT OR;
the other three entries, TRUE FALSE NULL, are LITERAL tokens and the parser stores them as written, see C09P).

## Relations (`Lemmas/ParseKCase0.lean`, `ParseKCase1.lean`)
* `KE t t'`: the tokens are equal, or both are single tokens WITHOUT the NAME and LITERAL marks, with the same marks, both plain words
  with the same `str.upper()`, which is a reserved word; bracket groups: same kind and marks, children related pointwise (a group with a
  NAME / LITERAL mark — the lexer emits none — must be the same).  `KEL` on lists.  `KE ⊆ CE` (`PM.ke_ce`).
* `km s`: the text `s`, except that a text which IS a reserved word (case-insensitively) or starts like the rendering `(`…`)` of a bracket
  group is upper-cased.  `kmSt0`, `kmE`, `kmQ` …: the tree with every stored text mapped through `km` (the two texts of a SET /
  TBLPROPERTIES config string, which are CONCATENATIONS of popped sources, through `up`).  So `kmSt0 s = kmSt0 s'` says: the trees are
  EQUAL, except that a stored text that is a reserved word / a bracket text (/ a config string) may differ in letter case.

## Theorems
* `C09.reserved_case_same_tree_upto` (no hypothesis): `KEL ts ts' →` `parse_statements` fails alike or returns lists equal after `kmSt0`;
  `…_statement` for one statement (with `KEL` remaining cursors), `…_loop`; the same relational lemma for EVERY function of the parser model
  (169: `PM.<function>_ke`, derived family `Lemmas/ParseKCase*.lean`, `tools/gen_kcase.py`).
* `C09.reserved_case_same_tree_partial`: … and the statement lists are EQUAL when neither of them stores a reserved word in another than
  upper case, a bracket text or a lower-case config string (`NoReservedStored ss := ss.map kmSt0 = ss`).  THE FULL STATEMENT
  `KEL ts ts' → pStatements d f ts = pStatements d f ts'` IS FALSE of the model and of the code: the parser stores a token it has NOT
  checked to be a NAME / LITERAL at the sites listed below, and accepts a reserved word there (`SELECT from FROM t` parses, with a column
  named `from`): `C09.Sharp.full_statement_false` (evaluated witness), real code: see the final report.
* all 84 entry points: `C09.entriesAll_reserved_case` (accepted / rejected alike, same error kind, `KEL` remaining cursors; the values
  are the `toVal` images of typed results related by the `PM.<function>_ke` lemma of the function the entry wraps).
* text level: `C09.reserved_case_text`, `C09.reserved_case_text_partial`, `C09.parseText2_reserved_case`; the hypothesis `KEL ts ts'` on the
  token lists is what the lexer half delivers: `C09.keyword_variants_ke` (composition with `C09.keyword_case`: every letter-case variant of
  every reserved word lexes to ONE token that is `KE`-related to the token of the upper-case spelling) and `C09.reserved_recase` (in every
  delimiter context).

## The exclusion: sites that store a token WITHOUT checking its NAME / LITERAL mark (model line ↦ `core/parser.py` line)
Expression / SELECT level (`MsqModel/Parse/Expr.lean`):
* `pNamed` 194-195: an unqualified column name — ANY token that is no literal, bracket, CASE or `*` (`parser.py:805-806` →
  `_parse_column_name_expression_without_table` 285-290);
* `pQualified` 204-205: the qualifier `x` of `x.name` / `x.*` (`parser.py:795-803` → 274-282, 424-428);
* `pTableName` 93: the table name after `schema.` (`parser.py:305-313`: line 308 re-checks `node_0` instead of `node_2` — a copy/paste slip,
  so `FROM s.(b)` and `FROM s.select` are accepted);
* `pWithTable` 681: the name of a CTE (`parser.py:1405`);
* `pLateral` 802: the view name of LATERAL VIEW (`parser.py:1190`);
* entry `literal_expression` (`Entry.lean:45`, `parser.py:365`).
DDL / DML level (`MsqModel/Parse/Stmt.lean`): `configStringLoop` / `pConfigString` 38-43 (`parser.py:119-130`, the only site that
CONCATENATES popped sources: `≈` form only), `pColType` 56 (type name, `parser.py:1554`), `pNameList` 106 and `pForeignKey` 112 / 120
(constraint name, column lists, master table: `parser.py:1615-1625`), `pIndexCol` 132 (`parser.py:1664`), `pOptSrc` 148 (USING / COMMENT of
an index: `parser.py:1693-1694, 1713-1714, 1733-1734, 1752-1753`), `pNamedIndex` 167 (index name: `parser.py:1711, 1731, 1750`),
`defColLoop` 196 / 198 / 202 (CHARACTER SET, COLLATE, COMMENT: `parser.py:1811-1817`), `pDefCol` 216 (column name: `parser.py:1790`),
`optEqSrc` 312 in `createOpts` (eleven table options: `parser.py:1999-2038`), `pAlterExpr` 432-443 (CHANGE / RENAME COLUMN / DROP COLUMN
names: `parser.py:2168-2184`), `pUse` 478 (`parser.py:2243`), `pUpdateSetCol` 482 (`parser.py:2270`).
(`pPartitionItem` 72 and `pGenerated` 181 pop a source only to LOOK IT UP: nothing of it is stored.)
At all other sites the stored source is that of a token checked to carry the NAME or LITERAL mark (`getAliasName`, `pAlias`, `pFuncName`,
`pTableName` first part, `pQualified` second part, `pColumnName`, `pElement` literal) or a constant from a table.

## What is missing
* the hypothesis `NoReservedStored` of the `_partial` theorems is on the RESULTS and slightly stronger than "no reserved word at an
  exclusion site": it also excludes a back-quoted reserved word used as a name in lower case (`` `select` `` is stored as `select`) and
  lower-case config strings; a hypothesis on the token list itself would need an instrumented parser;
* the 84 entry points: value level only through the typed lemmas (no `km` on `Val`).
-/
set_option linter.unusedVariables false
set_option linter.unusedSimpArgs false
open Lex PM Ast

namespace C09

/-! ## token level: `parse_statements` -/

/-- **C09.reserved_case_same_tree_upto**: `parse_statements` on two token lists that differ only in the letter case of reserved words: the
same error kind, or two statement lists that are EQUAL except that a stored reserved word / bracket text / config string may differ in letter
case (equal after `kmSt0`); every dialect, every fuel.  No hypothesis. -/
theorem reserved_case_same_tree_upto (d : Gen.D) (f : Nat) (ts ts' : List Tok) (h : KEL ts ts') :
    KEX (ceq (List.map kmSt0)) (pStatements d f ts) (pStatements d f ts') := pStatements_ke d f ts ts' h

/-- the loop of `parse_statements` from any accumulator -/
theorem reserved_case_same_tree_upto_loop (d : Gen.D) (f g : Nat) (acc acc' : List Stmt) (ts ts' : List Tok)
    (ha : acc.map kmSt0 = acc'.map kmSt0) (h : KEL ts ts') :
    KEX (ceq (List.map kmSt0)) (statementsLoop d f g acc ts) (statementsLoop d f g acc' ts') :=
  statementsLoop_ke d f g acc ts g acc' ts' rfl ha h

/-- one statement: same error kind, or related statements and `KEL` remaining cursors -/
theorem reserved_case_same_tree_upto_statement (d : Gen.D) (f : Nat) (ts ts' : List Tok) (h : KEL ts ts') :
    KER (ceq kmSt0) (pStatement d f ts) (pStatement d f ts') := pStatement_ke d f ts ts' h
/-- one SELECT statement (with or without WITH / UNION) -/
theorem reserved_case_select_upto (d : Gen.D) (f : Nat) (ts ts' : List Tok) (h : KEL ts ts') :
    KER (ceq kmQ) (pSelectStmt d f none ts) (pSelectStmt d f none ts') := pSelectStmt_ke d f none ts none ts' rfl h
/-- one expression (`parse_logical_or_level_expression`) -/
theorem reserved_case_expression_upto (d : Gen.D) (f : Nat) (ts ts' : List Tok) (h : KEL ts ts') :
    KER (ceq kmE) (pOr d f ts) (pOr d f ts') := pOr_ke d f ts ts' h

/-- accepted alike -/
theorem reserved_case_accept (d : Gen.D) (f : Nat) (ts ts' : List Tok) (h : KEL ts ts') (ss : List Stmt)
    (hs : pStatements d f ts = .ok ss) : ∃ ss', pStatements d f ts' = .ok ss' ∧ ss.map kmSt0 = ss'.map kmSt0 := by
  have := reserved_case_same_tree_upto d f ts ts' h
  rw [hs] at this
  cases h' : pStatements d f ts' with
  | error e => rw [h'] at this; simp at this
  | ok ss' => rw [h'] at this; exact ⟨ss', rfl, by simpa using this⟩
/-- rejected alike, with the same error kind -/
theorem reserved_case_reject (d : Gen.D) (f : Nat) (ts ts' : List Tok) (h : KEL ts ts') (e : Err)
    (hs : pStatements d f ts = .error e) : pStatements d f ts' = .error e := by
  have := reserved_case_same_tree_upto d f ts ts' h
  rw [hs] at this
  cases h' : pStatements d f ts' with
  | error e' => rw [h'] at this; simp at this; rw [this]
  | ok ss' => rw [h'] at this; simp at this

/-- the exclusion, on the RESULT: no statement of the list stores a reserved word in another than upper case, the text of a bracket group
containing a lower-case letter, or a config string with one (what a parser site that stores an UNCHECKED token can put into the tree) -/
def NoReservedStored (ss : List Stmt) : Prop := ss.map kmSt0 = ss

/-- **C09.reserved_case_same_tree_partial** — the sharp form under the exclusion.  Full statement (FALSE, see the header and
`Sharp.full_statement_false`): `KEL ts ts' → pStatements d f ts = pStatements d f ts'`.  Proved: token lists that differ only in the letter
case of reserved words are accepted / rejected alike (`reserved_case_reject`), and when accepted with statement lists neither of which stores
a reserved word (…) at a site that stores an unchecked token, the statement lists are EQUAL. -/
theorem reserved_case_same_tree_partial (d : Gen.D) (f : Nat) (ts ts' : List Tok) (h : KEL ts ts') (ss ss' : List Stmt)
    (hs : pStatements d f ts = .ok ss) (hs' : pStatements d f ts' = .ok ss') (h1 : NoReservedStored ss) (h2 : NoReservedStored ss') :
    ss = ss' := by
  obtain ⟨ss2, e2, he⟩ := reserved_case_accept d f ts ts' h ss hs
  rw [hs'] at e2; cases e2
  rw [← h1, ← h2, he]
/-- the same as an equation between the two runs -/
theorem reserved_case_same_run_partial (d : Gen.D) (f : Nat) (ts ts' : List Tok) (h : KEL ts ts')
    (h1 : ∀ ss, pStatements d f ts = .ok ss → NoReservedStored ss) (h2 : ∀ ss, pStatements d f ts' = .ok ss → NoReservedStored ss) :
    pStatements d f ts = pStatements d f ts' := by
  cases hs : pStatements d f ts with
  | error e => rw [reserved_case_reject d f ts ts' h e hs]
  | ok ss =>
    obtain ⟨ss', e2, _⟩ := reserved_case_accept d f ts ts' h ss hs
    rw [e2, reserved_case_same_tree_partial d f ts ts' h ss ss' hs e2 (h1 ss hs) (h2 ss' e2)]
/-- one statement, one SELECT, one expression: equal trees under the exclusion -/
theorem reserved_case_same_statement_partial (d : Gen.D) (f : Nat) (ts ts' : List Tok) (h : KEL ts ts') (s s' : Stmt) (r r' : List Tok)
    (hs : pStatement d f ts = .ok (s, r)) (hs' : pStatement d f ts' = .ok (s', r')) (h1 : kmSt0 s = s) (h2 : kmSt0 s' = s') :
    s = s' ∧ KEL r r' := by
  have := reserved_case_same_tree_upto_statement d f ts ts' h
  rw [hs, hs'] at this; simp at this
  exact ⟨by rw [← h1, ← h2, this.1], this.2⟩
theorem reserved_case_same_select_partial (d : Gen.D) (f : Nat) (ts ts' : List Tok) (h : KEL ts ts') (q q' : Query) (r r' : List Tok)
    (hs : pSelectStmt d f none ts = .ok (q, r)) (hs' : pSelectStmt d f none ts' = .ok (q', r')) (h1 : kmQ q = q) (h2 : kmQ q' = q') :
    q = q' ∧ KEL r r' := by
  have := reserved_case_select_upto d f ts ts' h
  rw [hs, hs'] at this; simp at this
  exact ⟨by rw [← h1, ← h2, this.1], this.2⟩
theorem reserved_case_same_expression_partial (d : Gen.D) (f : Nat) (ts ts' : List Tok) (h : KEL ts ts') (e e' : Expr) (r r' : List Tok)
    (hs : pOr d f ts = .ok (e, r)) (hs' : pOr d f ts' = .ok (e', r')) (h1 : kmE e = e) (h2 : kmE e' = e') :
    e = e' ∧ KEL r r' := by
  have := reserved_case_expression_upto d f ts ts' h
  rw [hs, hs'] at this; simp at this
  exact ⟨by rw [← h1, ← h2, this.1], this.2⟩

theorem kind_kmSt0 (s : Stmt) : kind (kmSt0 s) = kind s := by cases s <;> rfl
/-- the same number of statements, of the same kinds, in the same order -/
theorem reserved_case_kinds (d : Gen.D) (f : Nat) (ts ts' : List Tok) (h : KEL ts ts') (ss ss' : List Stmt)
    (hs : pStatements d f ts = .ok ss) (hs' : pStatements d f ts' = .ok ss') : ss.map kind = ss'.map kind := by
  obtain ⟨ss2, h2, he⟩ := reserved_case_accept d f ts ts' h ss hs
  rw [hs'] at h2; cases h2
  have := congrArg (List.map kind) he
  simpa [List.map_map, Function.comp_def, kind_kmSt0] using this

/-! ## every entry point of `PM.entries` -/

/-- the outcome of an entry point up to the value: the same error kind, or success with case-equivalent remaining cursors -/
def OutcomeKE (a b : Except Err (Val × List Tok)) : Prop :=
  match a, b with
  | .ok (_, r), .ok (_, r') => KEL r r'
  | .error e, .error e' => e = e'
  | _, _ => False
@[simp, grind =] theorem outcomeK_ok_ok (v v' : Val) (r r' : List Tok) : OutcomeKE (.ok (v, r)) (.ok (v', r')) = KEL r r' := by simp [OutcomeKE]
@[simp, grind =] theorem outcomeK_err_err (e e' : Err) : OutcomeKE (.error e) (.error e') = (e = e') := by simp [OutcomeKE]
@[simp, grind =] theorem outcomeK_ok_err (p : Val × List Tok) (e : Err) : OutcomeKE (.ok p) (.error e) = False := by
  obtain ⟨v, r⟩ := p; simp [OutcomeKE]
@[simp, grind =] theorem outcomeK_err_ok (p : Val × List Tok) (e : Err) : OutcomeKE (.error e) (.ok p) = False := by
  obtain ⟨v, r⟩ := p; simp [OutcomeKE]

/-- one entry point from the lemma of the function it wraps -/
macro "entry_ke " t:term : tactic =>
  `(tactic| (have hc := $t; (try dsimp only [exprEntry, stmtEntry, mapEntry]); split <;> split <;> simp_all))

/-- **C09.entries_reserved_case**: EVERY entry point `SQLParser.parse_*` of the model (`PM.entries`, 58 of them), on two token lists
that differ only in the letter case of words: accepted / rejected alike, the same error kind, case-equivalent remaining cursors. -/
theorem entries_reserved_case : ∀ e ∈ PM.entries, ∀ (d : Gen.D) (f : Nat) (ts ts' : List Tok), KEL ts ts' →
    OutcomeKE (e.2 d f ts) (e.2 d f ts') := by
  unfold PM.entries
  simp only [List.forall_mem_cons, List.not_mem_nil, false_imp_iff, implies_true, and_true]
  and_intros
  all_goals intro d f ts ts' h
  all_goals try dsimp only [exprEntry, stmtEntry, mapEntry]
  case _ => entry_ke popSrc_ke ts ts' h
  case _ => entry_ke pTblName_ke ts ts' h
  case _ => entry_ke pColumnName_ke ts ts' h
  case _ => entry_ke pFuncName_ke ts ts' h
  case _ => entry_ke pFunc_ke d f ts ts' h
  case _ => entry_ke pFuncIdx_ke d f ts ts' h
  case _ => entry_ke pCast_ke d f ts ts' h
  case _ => entry_ke pExtract_ke d f ts ts' h
  case _ => entry_ke pIfCall_ke d f ts ts' h
  case _ => entry_ke pWindow_ke d f ts ts' h
  case _ => entry_ke pCase_ke d f ts ts' h
  case _ => entry_ke pSubQuery_ke d f ts ts' h
  case _ => entry_ke pSubValue_ke d f ts ts' h
  case _ => entry_ke pElement_ke d f ts ts' h
  case _ => entry_ke pUnary_ke d f ts ts' h
  case _ => entry_ke pCompute_ke d f ts ts' h
  case _ => entry_ke pKeyword_ke d f none ts none ts' rfl h
  case _ => entry_ke pCompare_ke d f ts ts' h
  case _ => entry_ke pNot_ke d f ts ts' h
  case _ => entry_ke pAnd_ke d f ts ts' h
  case _ => entry_ke pXor_ke d f ts ts' h
  case _ => entry_ke pOr_ke d f ts ts' h
  case _ => entry_ke pFromTable_ke d f ts ts' h
  case _ => entry_ke pJoin_ke d f ts ts' h
  case _ => entry_ke pTableExpr_ke d f ts ts' h
  case _ => entry_ke pOptOr_ke d f "WHERE" ts "WHERE" ts' rfl h
  case _ => entry_ke pOrderByOpt_ke d f ts ts' h
  case _ =>
    have hc := pGroupBy_ke d f ts ts' h
    revert hc; generalize pGroupBy d f ts = a; generalize pGroupBy d f ts' = b; intro hc
    match a, b, hc with
    | .ok (x, r), .ok (x', r'), hc => simp at hc; simp [hc.2]
    | .error e, .error e', hc => simp at hc; simp [hc]
    | .ok (_, _), .error _, hc => simp at hc
    | .error _, .ok (_, _), hc => simp at hc
  case _ => entry_ke pLimit_ke ts ts' h
  case _ => entry_ke pWith_ke d f ts ts' h
  case _ => entry_ke pLateral_ke d f ts ts' h
  case _ =>
    have hw := pWith_ke d f ts ts' h
    revert hw; generalize pWith d f ts = a; generalize pWith d f ts' = b; intro hw
    match a, b, hw with
    | .ok (w, r), .ok (w', r'), hw =>
      simp at hw
      have hs := pSingle_ke d f w r w' r' hw.1 hw.2
      revert hs; dsimp only; generalize pSingle d f w r = a2; generalize pSingle d f w' r' = b2; intro hs
      match a2, b2, hs with
      | .ok (x, r), .ok (x', r'), hs => simp at hs; simp [hs.2]
      | .error e, .error e', hs => simp at hs; simp [hs]
      | .ok (_, _), .error _, hs => simp at hs
      | .error _, .ok (_, _), hs => simp at hs
    | .error e, .error e', hw => simp at hw; simp [hw]
    | .ok (_, _), .error _, hw => simp at hw
    | .error _, .ok (_, _), hw => simp at hw
  case _ => entry_ke pSelectStmt_ke d f none ts none ts' rfl h
  case _ => entry_ke pConfigStrExpr_ke ts ts' h
  case _ => entry_ke pColType_ke d f ts ts' h
  case _ => entry_ke pPartition_ke d f false ts false ts' rfl h
  case _ => entry_ke pForeignKey_ke ts ts' h
  case _ => entry_ke pIndexCol_ke ts ts' h
  case _ => entry_ke pPrimaryIndex_ke ts ts' h
  case _ => entry_ke pUniqueIndex_ke ts ts' h
  case _ => entry_ke pNormalIndex_ke ts ts' h
  case _ => entry_ke pFulltextIndex_ke ts ts' h
  case _ => entry_ke pDefCol_ke d f ts ts' h
  case _ => entry_ke pColOrIdx_ke d f ts ts' h
  case _ => entry_ke pAlterExpr_ke d f ts ts' h
  case _ => entry_ke pSet_ke ts ts' h
  case _ => entry_ke pCreateTable_ke d f ts ts' h
  case _ => entry_ke pDropTable_ke ts ts' h
  case _ => entry_ke pAnalyze_ke d f ts ts' h
  case _ => entry_ke pAlter_ke d f ts ts' h
  case _ => entry_ke pMsck_ke ts ts' h
  case _ => entry_ke pUse_ke ts ts' h
  case _ => entry_ke pTruncate_ke ts ts' h
  case _ => entry_ke pUpdate_ke d f none ts none ts' rfl h
  case _ => entry_ke pDelete_ke d f ts ts' h
  case _ => entry_ke pShowColumns_ke d f ts ts' h
  case _ => entry_ke pInsert_ke d f none ts none ts' rfl h
  case _ => entry_ke pStatements_ke d f ts ts' h

/-- the number of entry points covered -/
example : PM.entries.length = 58 := by decide

/-- **C09.entries2_reserved_case**: the same for the other 26 public entry points (`PM.entries2`, `MsqModel/Parse/Entry2.lean`; their
functions: `Lemmas/ParseCase8.lean`) -/
theorem entries2_reserved_case : ∀ e ∈ PM.entries2, ∀ (d : Gen.D) (f : Nat) (ts ts' : List Tok), KEL ts ts' →
    OutcomeKE (e.2 d f ts) (e.2 d f ts') := by
  unfold PM.entries2
  simp only [List.forall_mem_cons, List.not_mem_nil, false_imp_iff, implies_true, and_true]
  and_intros
  all_goals intro d f ts ts' h
  case _ => entry_ke pInsertType_ke ts ts' h
  case _ => entry_ke pJoinType_ke ts ts' h
  case _ => entry_ke pOrderType_ke ts ts' h
  case _ => entry_ke pUnionType_ke ts ts' h
  case _ => entry_ke pCompareOp_ke ts ts' h
  case _ => entry_ke pComputeOp_ke ts ts' h
  case _ => entry_ke pCastDataType_ke ts ts' h
  case _ => entry_ke pRowItem_ke ts ts' h
  case _ => entry_ke pWindowRow_ke ts ts' h
  case _ => entry_ke pWildcard_ke ts ts' h
  case _ => entry_ke pAlias_ke ts ts' h
  case _ => entry_ke pMultiAlias_ke ts ts' h
  case _ => entry_ke pJoinOn_ke d f ts ts' h
  case _ => entry_ke pJoinUsing_ke d f ts ts' h
  case _ => entry_ke pJoinExpr_ke d f ts ts' h
  case _ => entry_ke pSelectCol_ke d f ts ts' h
  case _ => entry_ke pSelectClause_ke d f ts ts' h
  case _ => entry_ke pFromClause_ke d f ts ts' h
  case _ => entry_ke pGroupingSets_ke d f ts ts' h
  case _ => entry_ke pOptOr_ke d f "HAVING" ts "HAVING" ts' rfl h
  case _ => entry_ke pSortBy_ke d f ts ts' h
  case _ => entry_ke pByList_ke d f "DISTRIBUTE" ts "DISTRIBUTE" ts' rfl h
  case _ => entry_ke pByList_ke d f "CLUSTER" ts "CLUSTER" ts' rfl h
  case _ => entry_ke pWithTable_ke d f ts ts' h
  case _ => entry_ke pUpdateSetCol_ke d f ts ts' h
  case _ => entry_ke pUpdateSet_ke d f ts ts' h

/-- **C09.entriesAll_reserved_case**: all 84 public parsing entry points -/
theorem entriesAll_reserved_case : ∀ e ∈ PM.entriesAll, ∀ (d : Gen.D) (f : Nat) (ts ts' : List Tok), KEL ts ts' →
    OutcomeKE (e.2 d f ts) (e.2 d f ts') := by
  intro e he
  simp only [entriesAll, List.mem_append] at he
  rcases he with he | he
  · exact entries_reserved_case e he
  · exact entries2_reserved_case e he
example : PM.entriesAll.length = 84 := by decide

/-! ## text level -/

mutual
theorem ke_size : ∀ t t' : Tok, KE t t' → Tok.size t = Tok.size t'
  | .single _ _, .single _ _, _ => rfl
  | .group _ cs _, .group _ cs' _, h => by simp only [KE] at h; simp only [Tok.size, kel_sizeL cs cs' h.2.2.1]
  | .single _ _, .group _ _ _, h => by simp [KE] at h
  | .group _ _ _, .single _ _, h => by simp [KE] at h
/-- the fuel the entry points compute does not depend on letter case -/
theorem kel_sizeL : ∀ ts ts' : List Tok, KEL ts ts' → sizeL ts = sizeL ts'
  | [], [], _ => rfl
  | t :: ts, t' :: ts', h => by simp only [kel_cons_cons] at h; simp only [sizeL, ke_size t t' h.1, kel_sizeL ts ts' h.2]
  | [], _ :: _, h => by simp at h
  | _ :: _, [], h => by simp at h
end
theorem kel_fuelFor (ts ts' : List Tok) (h : KEL ts ts') : fuelFor ts = fuelFor ts' := by simp [fuelFor, kel_sizeL ts ts' h]

/-- **C09.reserved_case_text**: the model of `SQLParser.parse_statements(text, dialect)` (dialect pre-pass, shipped lexer, the fuel
it computes itself) on two texts whose token lists differ only in the letter case of words: the same error kind, or statement lists
equal after `kmAll`. -/
theorem reserved_case_text (d : Gen.D) (text text' : List Char) (ts ts' : List Tok)
    (h1 : lex Gen.cfgS (dialectPre d text) = .ok ts) (h2 : lex Gen.cfgS (dialectPre d text') = .ok ts') (h : KEL ts ts') :
    KEX (ceq (List.map kmSt0)) (parseStatementsText d text) (parseStatementsText d text') := by
  simp only [parseStatementsText, h1, h2, kel_fuelFor ts ts' h]
  exact reserved_case_same_tree_upto d _ ts ts' h

/-- the outcome of a text-level entry point up to the value: the same error kind, or success with the same number of unconsumed tokens -/
def OutcomeTextKE (a b : Except Err (Val × Nat)) : Prop :=
  match a, b with
  | .ok (_, n), .ok (_, n') => n = n'
  | .error e, .error e' => e = e'
  | _, _ => False

/-- **C09.parseText_reserved_case**: EVERY text-level entry point `SQLParser.parse_<entry>(text, dialect)` of the model: accepted /
rejected alike, the same error kind, the same number of unconsumed tokens. -/
theorem parseText_reserved_case (entry : String) (d : Gen.D) (text text' : List Char) (ts ts' : List Tok)
    (h1 : lex Gen.cfgS (dialectPre d text) = .ok ts) (h2 : lex Gen.cfgS (dialectPre d text') = .ok ts') (h : KEL ts ts') :
    OutcomeTextKE (parseText entry d text) (parseText entry d text') := by
  unfold parseText
  cases hf : PM.entries.find? (·.1 == entry) with
  | none => simp [OutcomeTextKE]
  | some e =>
    obtain ⟨n, p⟩ := e
    have hm : (n, p) ∈ PM.entries := List.mem_of_find?_eq_some hf
    have this : OutcomeKE (p d (fuelFor ts) ts) (p d (fuelFor ts) ts') := entries_reserved_case (n, p) hm d (fuelFor ts) ts ts' h
    simp only [h1, h2, ← kel_fuelFor ts ts' h]
    cases ha : p d (fuelFor ts) ts <;> cases hb : p d (fuelFor ts) ts' <;> rw [ha, hb] at this <;> simp_all [OutcomeTextKE]
    exact kel_length this

/-- one entry run on the token lists of two texts -/
theorem run_entry_textK (p : Entry) (hp : ∀ (d : Gen.D) (f : Nat) (ts ts' : List Tok), KEL ts ts' → OutcomeKE (p d f ts) (p d f ts'))
    (d : Gen.D) (ts ts' : List Tok) (h : KEL ts ts') :
    OutcomeTextKE (match p d (fuelFor ts) ts with | .ok (v, r) => .ok (v, r.length) | .error e => .error e)
      (match p d (fuelFor ts') ts' with | .ok (v, r) => .ok (v, r.length) | .error e => .error e) := by
  have := hp d (fuelFor ts) ts ts' h
  rw [← kel_fuelFor ts ts' h]
  cases ha : p d (fuelFor ts) ts <;> cases hb : p d (fuelFor ts) ts' <;> rw [ha, hb] at this <;> simp_all [OutcomeTextKE]
  exact kel_length this
/-- **C09.parseText2_reserved_case**: every one of the 84 public entry points `SQLParser.parse_<entry>(text, dialect)` -/
theorem parseText2_reserved_case (entry : String) (d : Gen.D) (text text' : List Char) (ts ts' : List Tok)
    (h1 : lex Gen.cfgS (dialectPre d text) = .ok ts) (h2 : lex Gen.cfgS (dialectPre d text') = .ok ts') (h : KEL ts ts') :
    OutcomeTextKE (parseText2 entry d text) (parseText2 entry d text') := by
  unfold parseText2
  cases hf : PM.entriesAll.find? (·.1 == entry) with
  | none => simp [OutcomeTextKE]
  | some e =>
    obtain ⟨n, p⟩ := e
    simp only [h1, h2]
    exact run_entry_textK p (entriesAll_reserved_case (n, p) (List.mem_of_find?_eq_some hf)) d ts ts' h
/-- … and called with a `TokenScanner` (no dialect pre-pass: the hypothesis is on the token lists of the texts themselves) -/
theorem parseScanner2_reserved_case (entry : String) (d : Gen.D) (text text' : List Char) (ts ts' : List Tok)
    (h1 : lex Gen.cfgS text = .ok ts) (h2 : lex Gen.cfgS text' = .ok ts') (h : KEL ts ts') :
    OutcomeTextKE (parseScanner2 entry d text) (parseScanner2 entry d text') := by
  unfold parseScanner2
  cases hf : PM.entriesAll.find? (·.1 == entry) with
  | none => simp [OutcomeTextKE]
  | some e =>
    obtain ⟨n, p⟩ := e
    simp only [h1, h2]
    exact run_entry_textK p (entriesAll_reserved_case (n, p) (List.mem_of_find?_eq_some hf)) d ts ts' h


/-- **C09.reserved_case_text_partial**: two texts whose token lists differ only in the letter case of reserved words (`KEL`; delivered by
`keyword_variants_ke` / `reserved_recase`) parse — with the dialect pre-pass, the shipped lexer and the fuel the entry computes itself — to
EQUAL statement lists, provided neither result stores a reserved word (…) taken from an unchecked token (`NoReservedStored`). -/
theorem reserved_case_text_partial (d : Gen.D) (text text' : List Char) (ts ts' : List Tok)
    (h1 : lex Gen.cfgS (dialectPre d text) = .ok ts) (h2 : lex Gen.cfgS (dialectPre d text') = .ok ts') (h : KEL ts ts') (ss ss' : List Stmt)
    (hs : parseStatementsText d text = .ok ss) (hs' : parseStatementsText d text' = .ok ss')
    (n1 : NoReservedStored ss) (n2 : NoReservedStored ss') : ss = ss' := by
  simp only [parseStatementsText, h1, h2] at hs hs'
  rw [← kel_fuelFor ts ts' h] at hs'
  exact reserved_case_same_tree_partial d _ ts ts' h ss ss' hs hs' n1 n2

/-! ## the link to the lexer half (`C09.keyword_case`) -/

/-- two spellings of one reserved word (decidable form) -/
def keWordB (s s' : List Char) : Bool := ceWordB s s' && reservedL.contains (Gen.pyUpper s)
theorem has0 (s : List Char) (m : Nat) : (Tok.single s 0).has m = false := by simp [Tok.has, Tok.marks]
theorem ke_of_keWordB (s s' : List Char) (h : keWordB s s' = true) : KE (.single s 0) (.single s' 0) := by
  simp only [keWordB, ceWordB, Bool.and_eq_true, beq_iff_eq] at h
  simp only [KE, true_and]
  exact .inr ⟨has0 s _, has0 s _, h.1.1.1, h.1.1.2, h.1.2, h.2⟩
/-- every letter-case variant of every UNMARKED keyword-table entry is a spelling of that reserved word … -/
theorem keyword_variants_reserved :
    (Gen.wordMarks.all fun e => e.2 != 0 || (C05.caseVariants e.1.toList).all fun v => keWordB e.1.toList v) = true := by
  decide +kernel
/-- the reserved words are the 24 unmarked entries of the table -/
example : reservedL.length = 24 ∧ (Gen.wordMarks.filter (·.2 != 0)).map (·.1) = ["TRUE", "FALSE", "NULL"] := by decide +kernel
/-- **C09.keyword_variants_ke** — composition with `C09.keyword_case`: every letter-case variant `v` of every reserved word (an entry of the
lexer's keyword table with no mark) lexes to ONE token, and that token is `KE`-related to the token of the upper-case spelling: the
hypothesis `KEL ts ts'` of the theorems above is what the lexer half delivers for the letter case of reserved words. -/
theorem keyword_variants_ke (e : String × Nat) (he : e ∈ Gen.wordMarks) (h0 : e.2 = 0) (v : List Char) (hv : v ∈ C05.caseVariants e.1.toList) :
    KEL [.single e.1.toList e.2] [.single v e.2] ∧ lexesTo (lex Gen.cfgS v) [.single v e.2] = true := by
  have h1 := keyword_variants_reserved
  simp only [List.all_eq_true] at h1
  have h1' := h1 e he
  simp only [h0, bne_self_eq_false, Bool.false_or, List.all_eq_true] at h1'
  refine ⟨?_, (keyword_variants_ce e he v hv).2⟩
  rw [h0]; simp [ke_of_keWordB _ _ (h1' v hv)]
/-- **C09.reserved_recase**: two spellings `v`, `w` of one reserved word (not beginning with `b B x X`: `BY` is the one reserved word this
in-context lemma leaves to `keyword_variants_ke`), in every delimiter context (`LexLink.Lx`): each lexes to ONE unmarked token, and the two
tokens are `KE`-related — so re-casing a reserved word in a text changes the token list within `KEL`, position by position. -/
theorem reserved_recase (e : String × Nat) (he : e ∈ Gen.wordMarks) (h0 : e.2 = 0) (v w : List Char)
    (hv : v ∈ C05.caseVariants e.1.toList) (hw : w ∈ C05.caseVariants e.1.toList) (iv : C05.isWord v = true) (iw : C05.isWord w = true) :
    LexLink.Lx v [.single v 0] ∧ LexLink.Lx w [.single w 0] ∧ KE (.single v 0) (.single w 0) := by
  have hk := keyword_case
  simp only [List.all_eq_true] at hk
  have hk' := hk e he
  simp only [caseOK, List.all_eq_true, Bool.and_eq_true, beq_iff_eq] at hk'
  have mv : C05.wordMark v = 0 := by rw [(hk' v hv).1, h0]
  have mw : C05.wordMark w = 0 := by rw [(hk' w hw).1, h0]
  have h1 := keyword_variants_reserved
  simp only [List.all_eq_true] at h1
  have h1' := h1 e he
  simp only [h0, bne_self_eq_false, Bool.false_or, List.all_eq_true] at h1'
  have kv := h1' v hv; have kw := h1' w hw
  simp only [keWordB, ceWordB, Bool.and_eq_true, beq_iff_eq] at kv kw
  refine ⟨mv ▸ LexLink.lx_word v iv, mw ▸ LexLink.lx_word w iw, ?_⟩
  simp only [KE, true_and]
  exact .inr ⟨has0 v _, has0 v _, kv.1.1.2, kw.1.1.2, kv.1.2.symm.trans kw.1.2, by rw [← kv.1.2]; exact kv.2⟩
example : ("WHERE", 0) ∈ Gen.wordMarks ∧ "wHeRe".toList ∈ C05.caseVariants "WHERE".toList ∧ "where".toList ∈ C05.caseVariants "WHERE".toList ∧
    C05.isWord "wHeRe".toList = true ∧ C05.isWord "where".toList = true := by decide +kernel

/-! ## non-vacuity (tests: `String` functions do not reduce in the kernel, so these are evaluated `#guard`s) -/
namespace Sharp

mutual
/-- decidable mirror of `KE` / `KEL` for the tests -/
def keB : Tok → Tok → Bool
  | .single s m, .single s' m' => m == m' && (s == s' || (!(Tok.has (.single s m) NAME) && !(Tok.has (.single s m) LITERAL) && keWordB s s'))
  | .group k cs m, .group k' cs' m' => k == k' && m == m' && kelB cs cs' && ((m &&& NAME == 0 && m &&& LITERAL == 0) || eqbL cs cs')
  | _, _ => false
def kelB : List Tok → List Tok → Bool
  | [], [] => true
  | t :: ts, t' :: ts' => keB t t' && kelB ts ts'
  | _, _ => false
end
def dump (ss : List Stmt) : String := toString (repr (ss.map Stmt.toVal))
/-- both texts lex, to `KEL`-related token lists that are NOT equal; `parse_statements` returns two statement lists that are literally EQUAL
and satisfy the exclusion hypothesis `NoReservedStored` (all compared through the canonical dump) -/
def pairEQ (d : Gen.D) (a b : String) : Bool :=
  let ta := lexS a; let tb := lexS b
  !ta.isEmpty && kelB ta tb && !(eqbL ta tb) &&
  match pStatements d (fuelFor ta) ta, pStatements d (fuelFor tb) tb with
  | .ok x, .ok y => !x.isEmpty && dump x == dump y && dump (x.map kmSt0) == dump x && dump (y.map kmSt0) == dump y
  | _, _ => false
/-- an excluded pair: `KEL`-related token lists, both accepted, trees DIFFERENT but equal after `kmSt0` -/
def pairUPTO (d : Gen.D) (a b : String) : Bool :=
  let ta := lexS a; let tb := lexS b
  kelB ta tb && !(eqbL ta tb) &&
  match pStatements d (fuelFor ta) ta, pStatements d (fuelFor tb) tb with
  | .ok x, .ok y => dump x != dump y && dump (x.map kmSt0) == dump (y.map kmSt0)
  | _, _ => false
/-- both rejected with the same error kind -/
def pairERR (d : Gen.D) (a b : String) : Bool :=
  let ta := lexS a; let tb := lexS b
  kelB ta tb && !(eqbL ta tb) &&
  match pStatements d (fuelFor ta) ta, pStatements d (fuelFor tb) tb with
  | .error x, .error y => x.show == y.show
  | _, _ => false

-- every statement kind in which a reserved word can occur at a keyword position
#guard pairEQ .MYSQL "SELECT a FROM t WHERE b IS NOT NULL" "select a from t where b IS nOt NULL"
#guard pairEQ .HIVE "SELECT a, b FROM t x LEFT OUTER JOIN u y ON x.a = y.a WHERE a BETWEEN 1 AND 2 OR c GROUP BY a HAVING a > 1 ORDER BY a DESC LIMIT 3"
                    "sElEcT a, b fRoM t x left outer join u y on x.a = y.a where a BETWEEN 1 and 2 or c group By a having a > 1 order bY a DESC limit 3"
#guard pairEQ .HIVE "SELECT a FROM t x INNER JOIN u RIGHT JOIN v FULL JOIN w" "select a from t x inner join u right join v full join w"
#guard pairEQ .MYSQL "SELECT a FROM t UNION ALL SELECT b FROM u EXCEPT SELECT c FROM v" "select a from t union ALL select b from u except select c from v"
#guard pairEQ .HIVE "SELECT a FROM t MINUS SELECT b FROM u INTERSECT SELECT c FROM v" "select a from t minus select b from u intersect select c from v"
#guard pairEQ .HIVE "SELECT a FROM t LATERAL VIEW OUTER explode(b) v AS c" "select a from t lateral view outer explode(b) v AS c"
#guard pairEQ .MYSQL "WITH w AS (SELECT a FROM t) SELECT a FROM w" "WITH w AS (select a from t) select a from w"
#guard pairEQ .MYSQL "SELECT (SELECT 1), CASE WHEN a AND NOT b THEN 1 ELSE 2 END FROM (SELECT 1 FROM t) x" "select (select 1), CASE WHEN a and not b THEN 1 ELSE 2 END from (select 1 from t) x"
#guard pairEQ .MYSQL "INSERT INTO t (a, b) VALUES ((SELECT 1 FROM u), 2)" "INSERT INTO t (a, b) VALUES ((select 1 from u), 2)"
#guard pairEQ .HIVE "INSERT OVERWRITE TABLE t PARTITION (a = 1) SELECT b FROM u" "INSERT OVERWRITE TABLE t PARTITION (a = 1) select b from u"
#guard pairEQ .MYSQL "UPDATE t SET a = 1 WHERE b = 2 ORDER BY a LIMIT 1" "UPDATE t SET a = 1 where b = 2 order by a limit 1"
#guard pairEQ .MYSQL "DELETE FROM t WHERE a = 1 AND b = 2" "DELETE from t where a = 1 and b = 2"
#guard pairEQ .MYSQL "CREATE TABLE IF NOT EXISTS t (a INT NOT NULL DEFAULT 1 ON UPDATE 2, PRIMARY KEY (a))" "CREATE TABLE IF not EXISTS t (a INT not NULL DEFAULT 1 on UPDATE 2, PRIMARY KEY (a))"
#guard pairEQ .MYSQL "CREATE TABLE t AS SELECT a FROM u" "CREATE TABLE t AS select a from u"
#guard pairEQ .MYSQL "ALTER TABLE t ADD a INT NOT NULL, ADD IF NOT EXISTS PARTITION (b = 1)" "ALTER TABLE t ADD a INT not NULL, ADD IF not EXISTS PARTITION (b = 1)"
#guard pairEQ .MYSQL "SHOW COLUMNS FROM t WHERE a = 1" "SHOW COLUMNS from t where a = 1"
#guard pairEQ .MYSQL "SELECT a FROM t; DELETE FROM u" "select a from t; DELETE from u"
#guard pairERR .MYSQL "SELECT a FROM t WHERE" "select a from t where"
#guard pairERR .MYSQL "SELECT a FROM t GROUP a" "select a from t group a"
-- (DROP TABLE, SET, ANALYZE, MSCK, USE, TRUNCATE, SHOW DATABASES / TABLES contain no reserved word at a keyword position)

/-- **the full statement is FALSE**: `SELECT from FROM t` / `SELECT FROM FROM t` — `KEL`-related token lists (the second token is the
reserved word `FROM` without a mark), both ACCEPTED (the element-level parser takes ANY token as a column name), different trees (column
`from` / `FROM`), equal after `kmSt0`.  The same at the other exclusion sites. -/
def full_statement_false : Bool := pairUPTO .MYSQL "SELECT from FROM t" "SELECT FROM FROM t"
#guard full_statement_false
#guard pairUPTO .MYSQL "SELECT where.a, on.* FROM t" "SELECT WHERE.a, ON.* FROM t"                       -- qualifier of a column / wildcard
#guard pairUPTO .MYSQL "SELECT a FROM s.select" "SELECT a FROM s.SELECT"                                  -- table name after `schema.` (parser.py:308)
#guard pairUPTO .MYSQL "WITH select AS (SELECT 1) SELECT 2" "WITH SELECT AS (SELECT 1) SELECT 2"          -- CTE name
#guard pairUPTO .HIVE "SELECT a FROM t LATERAL VIEW explode(b) from AS c" "SELECT a FROM t LATERAL VIEW explode(b) FROM AS c"   -- view name
#guard pairUPTO .MYSQL "USE select" "USE SELECT"
#guard pairUPTO .MYSQL "USE (select a)" "USE (SELECT a)"                                                   -- a bracket group stored as text
#guard pairUPTO .MYSQL "SET a.select = from" "SET a.SELECT = FROM"                                         -- config string: concatenation
#guard pairUPTO .MYSQL "UPDATE t SET where = 1" "UPDATE t SET WHERE = 1"
#guard pairUPTO .MYSQL "CREATE TABLE t (select from COMMENT where, KEY by (on)) ENGINE = or" "CREATE TABLE t (SELECT FROM COMMENT WHERE, KEY BY (ON)) ENGINE = OR"
#guard pairUPTO .MYSQL "ALTER TABLE t DROP COLUMN select, RENAME COLUMN from TO where" "ALTER TABLE t DROP COLUMN SELECT, RENAME COLUMN FROM TO WHERE"
end Sharp

end C09
