import MsqProofs.Lemmas.ParseAccountDdl7
import MsqProofs.Props.C08A
/-!
# C08 — accounting for every accepted token list, ALL statement classes (CREATE TABLE ( … ), ALTER … ADD / MODIFY / CHANGE, SET included)

`C08A` (`parse_accounted_partial`) leaves CREATE TABLE with column definitions, ALTER TABLE … ADD / MODIFY / CHANGE and SET outside its
fragment `FullStmt`.  Here they are inside (`FullDStmt`), under hypotheses that are exactly the places where the proofs need them:

1. **Runs** (SET, TBLPROPERTIES): `_parse_config_string` stores `name ("." | "-") name …` as ONE string.  The relation `AccD T ctx t`
   (`Lemmas/ParseAccountDdl0.lean`) has every rule of `PA.Acc` (rule `whole`) plus
     `part`: `ctx = pre ++ us ++ post`, `t ∈ us`, `catSrc us ∈ T` — `t` lies in a run of CONSECUTIVE tokens of the list it is read
     from, and the concatenation of the sources of EXACTLY that run is a stored string.  (Indexed by the list, so the rule cannot be
     satisfied by inventing neighbours; produced only by `pConfigString_run`.)  No hypothesis: `set_accounted`.
2. **F-C08-4, overwriting loops** (`defColLoop`, `createOpts`): hypothesis on the CONSUMED RUN of tokens:
   `NoRep used` — none of `CHARACTER` (SET), `COLLATE`, `DEFAULT`, `COMMENT`, (ON) `UPDATE`, `GENERATED` twice among the top-level
   tokens of a column definition;  `NoRepO used` — none of the twelve text-bearing option keywords twice in the option list.
   Flags (`NOT NULL`, `AUTO_INCREMENT` …, `STORED AS TEXTFILE`) may repeat.  Witness: `a int DEFAULT 1 DEFAULT 2` loses `1`.
   NEW SITE of the same defect, found by the proof: a second `PRIMARY KEY ( … )` element overwrites the first (`pkOnce`).
3. **F-C08-6** (a word where a bracket group is expected): on the RESULT where the result shows it — `FullIdx` (an index has a
   column: `PRIMARY KEY x`), `FullFK` (`FOREIGN KEY x REFERENCES t y`), `HasElem` (`CREATE TABLE t x`) — and on the TOKENS where it
   leaves no trace: `groupAt used` (the token after `TBLPROPERTIES`, the second token after `PARTITIONED`, is a bracket group).
   Witness: `PARTITIONED BY x`.
4. `parse_accounted_ddl_partial` for `pStatements` over ALL classes; the token hypotheses are collected in `runsOK d f g ts` (Bool):
   the statement loop is followed only to DELIMIT the statements (and `alterLoop` to delimit the operations of an ALTER TABLE): the
   token run of every statement whose result is a CREATE TABLE ( … ) satisfies `ddlRunOK` (2. and the token half of 3.), the run of
   every operation of an ALTER TABLE satisfies `NoRep` (`alterOK`).  `stmtOK` chooses by the class of the result; nothing is asked
   of the other classes.

Missing (the `_partial`): the count of attribute keywords is over ALL top-level tokens of the run, also those inside a DEFAULT
expression (`DEFAULT comment COMMENT 'x'` is excluded although nothing is lost); multiplicities are not proved (set level, as in `C08A`); F-C08-5 (a
bracket group taken as a name) is accounted for as a whole (`stray_inserted_ddl_partial` excludes it by `NoGroupWholeD`).
`String` operations do not reduce in the kernel: the witnesses are `#guard`s (evaluated tests); the theorems are kernel-checked.
-/
set_option linter.unusedVariables false
open Lex PM Ast PA PA.Ddl
namespace C08

/-! ### 1. SET -/
/-- SET: every consumed token is the keyword or lies in one of the two runs whose concatenations are the stored name / value -/
theorem set_accounted (ts : List Tok) (s : Stmt) (r : List Tok) (h : pSet ts = .ok (s, r)) :
    ∃ used, ts = used ++ r ∧ AccAllD (tStmt s) used := by
  obtain ⟨u, e, k⟩ := pSet_acc (tStmt s) ts s r h
  exact ⟨u, e, k (by simp [PM.Sub])⟩
/-- the run rule is not vacuous: the stored string of `_parse_config_string` IS the concatenation of exactly the consumed run -/
theorem config_string_run (ts : List Tok) (s : String) (r : List Tok) (h : pConfigString ts = .ok (s, r)) :
    ∃ us, ts = us ++ r ∧ us ≠ [] ∧ s = catSrc us := pConfigString_run h

/-! ### 2. column definitions -/
/-- FULL STATEMENT (false: F-C08-4): without `NoRep`.  A column definition whose run has no text-bearing attribute keyword twice -/
theorem defcol_accounted_partial (d : Gen.D) (f : Nat) (ts : List Tok) (c : DefCol) (r : List Tok) (h : pDefCol d f ts = .ok (c, r)) :
    ∃ used, ts = used ++ r ∧ (NoRep used = true → FullDC c = true → AccAll (tDC c) used) := by
  obtain ⟨u, e, k⟩ := pDefCol_acc (tDC c) d f ts c r h
  exact ⟨u, e, fun h1 h2 => k h1 h2 (by simp [PM.Sub])⟩
/-- the attribute loop with an arbitrary accumulator: the invariant behind `NoRep` -/
theorem defcol_loop_accounted_partial (T : List String) (d : Gen.D) (f g : Nat) (c : DefCol) (ts : List Tok) (c' : DefCol) (r : List Tok)
    (h : defColLoop d f g c ts = .ok (c', r)) :
    ∃ used, ts = used ++ r ∧ (AttrOK c used → FullDC c' = true → FullDC c = true ∧ (Sub (tDC c') T → AccAll T used ∧ Sub (tDC c) T)) :=
  defColLoop_acc T d f g c ts c' r h

/-! ### 3. CREATE TABLE: elements, options -/
theorem create_opts_accounted_partial (T : List String) (d : Gen.D) (f g : Nat) (c : CreateTable) (ts : List Tok) (c' : CreateTable)
    (r : List Tok) (h : createOpts d f g c ts = .ok (c', r)) :
    ∃ used, ts = used ++ r ∧ (OptOK c used → FullCT c' = true → FullCT c = true ∧ (Sub (tCTb c') T → AccAllD T used ∧ Sub (tCTb c) T)) :=
  createOpts_acc T d f g c ts c' r h
theorem create_table_accounted_partial (d : Gen.D) (f : Nat) (ts : List Tok) (s : Stmt) (r : List Tok) (h : pCreateTable d f ts = .ok (s, r)) :
    ∃ used, ts = used ++ r ∧ (stmtOK d f ts s used = true → FullDStmt s = true → AccAllD (tStmt s) used) := by
  obtain ⟨u, e, k⟩ := pCreateTable_acc (tStmt s) d f ts s r h
  exact ⟨u, e, fun h1 h2 => k h1 h2 (by simp [PM.Sub])⟩
/-- what `stmtOK` asks: of a CREATE TABLE ( … ) result `ddlRunOK` of its run, of an ALTER TABLE result `alterOK` at its cursor -/
theorem stmtOK_createTable (d : Gen.D) (f : Nat) (ts : List Tok) (c : CreateTable) (used : List Tok) :
    stmtOK d f ts (.createTable c) used = ddlRunOK used := rfl
theorem stmtOK_alter (d : Gen.D) (f : Nat) (ts : List Tok) (t : TableName) (ops : List AlterOp) (used : List Tok) :
    stmtOK d f ts (.alter t ops) used = alterOK d f ts := rfl

/-! ### 4. ALTER TABLE … ADD / MODIFY / CHANGE -/
theorem alter_accounted_partial (d : Gen.D) (f : Nat) (ts : List Tok) (s : Stmt) (r : List Tok) (h : pAlter d f ts = .ok (s, r)) :
    ∃ used, ts = used ++ r ∧ (stmtOK d f ts s used = true → FullDStmt s = true → AccAllD (tStmt s) used) := by
  obtain ⟨u, e, k⟩ := pAlter_acc (tStmt s) d f ts s r h
  exact ⟨u, e, fun h1 h2 => k h1 h2 (by simp [PM.Sub])⟩

/-! ### 5. every statement class -/
/-- every token of an accepted token list is accounted for (relation with runs) -/
def AccountedD (ts : List Tok) (ss : List Stmt) : Prop := ∀ t ∈ ts, AccD (tStmts ss) ts t
/-- `C08A`'s conclusion implies this one -/
theorem accountedD_of_accounted {ts : List Tok} {ss : List Stmt} (h : Accounted ts ss) : AccountedD ts ss := fun t ht => .whole (h t ht)

/-- FULL STATEMENT (not proved; false: F-C08-4, F-C08-6, witnesses below): `pStatements d f ts = .ok ss → AccountedD ts ss`.
Proved for results in `FullDStmts` (a Bool on the result; ALL statement classes) and token lists whose CREATE TABLE / ALTER TABLE
statements satisfy `stmtOK` (`runsOK`, a Bool on the tokens, the parser is used to delimit the statements / ALTER operations only). -/
theorem parse_accounted_ddl_partial (d : Gen.D) (f : Nat) (ts : List Tok) (ss : List Stmt)
    (h : pStatements d f ts = .ok ss) (hf : FullDStmts ss = true) (hr : runsOK d f (ts.length + 1) ts = true) : AccountedD ts ss :=
  ((statementsLoop_acc (tStmts ss) d f (ts.length + 1) [] ts ss h hr hf).2 (by simp [PM.Sub])).1

theorem fullDAOs_of : ∀ ops : List AlterOp, FullAOs ops = true → FullDAOs ops = true
  | [], _ => rfl
  | o :: l, h => by
    simp only [FullAOs, Bool.and_eq_true] at h
    simp only [FullDAOs, Bool.and_eq_true]
    exact ⟨by cases o <;> simp_all [FullDAO, FullAO], fullDAOs_of l h.2⟩
/-- the fragment of `C08A` is inside this one, and needs no token hypothesis -/
theorem fullD_of_full : ∀ ss : List Stmt, FullStmts ss = true → FullDStmts ss = true := by
  intro ss
  induction ss with
  | nil => intro _; rfl
  | cons s l ih =>
    intro h
    simp only [FullStmts, Bool.and_eq_true] at h
    simp only [FullDStmts, Bool.and_eq_true]
    refine ⟨?_, ih h.2⟩
    have h1 := h.1
    cases s with
    | alter t ops => exact fullDAOs_of ops h1
    | _ => simp_all [FullDStmt, FullStmt]

/-- the same through the lexer -/
theorem parse_text_accounted_ddl_partial (d : Gen.D) (text : List Char) (ss : List Stmt)
    (h : parseStatementsText d text = .ok ss) (hf : FullDStmts ss = true) :
    ∃ ts, lex Gen.cfgS (dialectPre d text) = .ok ts ∧ (runsOK d (fuelFor ts) (ts.length + 1) ts = true → AccountedD ts ss) := by
  unfold parseStatementsText at h
  split at h
  · simp at h
  · rename_i ts hl; exact ⟨ts, hl, fun hr => parse_accounted_ddl_partial d _ ts ss h hf hr⟩

/-! ### 6. the stray-token clause, restated -/
/-- accounted for as a whole, or inside a run of its token list whose concatenation is stored -/
def WholeD (T : List String) (ctx : List Tok) (g : Tok) : Prop :=
  Whole T g ∨ ∃ pre us post, ctx = pre ++ us ++ post ∧ g ∈ us ∧ catSrc us ∈ T
theorem accD_inside {T : List String} {ctx : List Tok} {t : Tok} (h : AccD T ctx t) :
    ∀ x, Inside x t → Groupish x = false → ∃ g c, Inside x g ∧ Inside g t ∧ WholeD T c g := by
  induction h with
  | whole h =>
    intro x hx hl
    obtain ⟨g, h1, h2, h3⟩ := acc_inside h x hx hl
    exact ⟨g, [], h1, h2, Or.inl h3⟩
  | @part ctx t pre us post e hm hs => intro x hx _; exact ⟨t, ctx, hx, .self _, Or.inr ⟨pre, us, post, e, hm, hs⟩⟩
  | group hb hc ih =>
    intro x hx hl
    cases hx with
    | self => rw [hb] at hl; exact absurd hl (by simp)
    | child hcx hxc =>
      obtain ⟨g, c, h1, h2, h3⟩ := ih _ hcx x hxc hl
      exact ⟨g, c, h1, .child hcx h2, h3⟩
/-- no bracket group of the token list (at any depth) is accounted for as a whole or as part of a run: excludes class F-C08-5 -/
def NoGroupWholeD (T : List String) (ts : List Tok) : Prop :=
  ∀ t ∈ ts, ∀ g, Inside g t → Groupish g = true → ∀ c, ¬ WholeD T c g
theorem catSrc_mem {x : Tok} {us : List Tok} (h : x ∈ us) : ∃ a b, catSrc us = catSrc a ++ x.src ++ catSrc b := by
  obtain ⟨a, b, rfl⟩ := List.append_of_mem h
  exact ⟨a, b, by simp [catSrc_append, catSrc, String.append_assoc]⟩

/-- FULL STATEMENT (not proved; false because of F-C08-4 / -5 / -6): a token list with a fresh identifier `x` inserted anywhere at any
depth, if accepted, yields statements whose texts contain `x`.  Proved for ALL statement classes under the hypotheses of
`parse_accounted_ddl_partial` and `NoGroupWholeD`: `x` is stored verbatim, or without its back-quotes, or as a CONTIGUOUS PART of a
stored string that is the concatenation of the sources of a run of consecutive tokens around `x` (SET / TBLPROPERTIES). -/
theorem stray_inserted_ddl_partial (d : Gen.D) (f : Nat) (ts ts' : List Tok) (ss' : List Stmt) (x : Tok) (hi : Inserted x ts ts')
    (h : pStatements d f ts' = .ok ss') (hf : FullDStmts ss' = true) (hr : runsOK d f (ts'.length + 1) ts' = true)
    (hg : NoGroupWholeD (tStmts ss') ts') (hfr : FreshName x) :
    x.src ∈ tStmts ss' ∨ unifyName x.src ∈ tStmts ss' ∨ ∃ a b : List Tok, catSrc a ++ x.src ++ catSrc b ∈ tStmts ss' := by
  obtain ⟨t, ht, hin⟩ := hi.inside
  obtain ⟨hl, hk, hi2, hd⟩ := hfr
  obtain ⟨g, c, h1, h2, h3⟩ := accD_inside (parse_accounted_ddl_partial d f ts' ss' h hf hr t ht) x hin hl
  have hgx : g = x := by
    cases h1 with
    | self => rfl
    | child hc hin2 =>
      have : Groupish g = true := by
        cases hcg : g.children with
        | nil => rw [hcg] at hc; simp at hc
        | cons a b => simp [Groupish, hcg]
      exact absurd h3 (hg t ht g h2 this c)
  subst hgx
  rcases h3 with (h3 | h3 | ⟨a, b, h3, _⟩ | ⟨n, h3, _⟩ | h3) | ⟨pre, us, post, _, hm, hs⟩
  · exact Or.inl h3
  · exact Or.inr (Or.inl h3)
  · exact absurd h3 (hd a b)
  · exact absurd h3 (hi2 n)
  · rw [hk] at h3; simp at h3
  · obtain ⟨a, b, e⟩ := catSrc_mem hm
    exact Or.inr (Or.inr ⟨a, b, e ▸ hs⟩)

/-! ### non-vacuity and the witnesses of the hypotheses (`#guard`: evaluated tests) -/
namespace DdlW
def toks (s : String) : List Tok := match Lex.lex Gen.cfgS s.toList with | .ok ts => ts | .error _ => []
/-- all contiguous runs of `ctx` that contain position `i` -/
def runsAt (ctx : List Tok) (i : Nat) : List (List Tok) :=
  (List.range (i + 1)).flatMap fun a => (List.range (ctx.length - i)).map fun k => (ctx.drop a).take (i - a + 1 + k)
mutual
/-- `AccD`, evaluated (`ctx`, position `i` of the token) -/
def accDB (T : List String) (ctx : List Tok) (i : Nat) : Tok → Bool
  | .single s m =>
    let t := Tok.single s m
    T.contains t.src || T.contains (unifyName t.src) || PA.KwTok t ||
      (match splitName t.src with | .ok (some a, b) => T.contains a && T.contains b | _ => false) ||
      (match pyInt t.src with | .ok n => T.contains (toString n) | _ => false) ||
      (runsAt ctx i).any fun us => T.contains (catSrc us)
  | .group k cs m =>
    let t := Tok.group k cs m
    T.contains t.src || T.contains (unifyName t.src) || (Groupish t && accDBL T cs 0 cs)
def accDBL (T : List String) (ctx : List Tok) (i : Nat) : List Tok → Bool
  | [] => true
  | t :: ts => accDB T ctx i t && accDBL T ctx (i + 1) ts
end
/-- accepted, in the fragment, the token hypothesis holds, and every token passes the evaluated `AccD` -/
def holds (d : Gen.D) (s : String) : Bool :=
  match pStatements d 4000 (toks s) with
  | .ok ss => FullDStmts ss && runsOK d 4000 ((toks s).length + 1) (toks s) && accDBL (tStmts ss) (toks s) 0 (toks s) && !(toks s).isEmpty
  | _ => false
/-- accepted, the result is in the fragment, the TOKEN hypothesis fails, and the word `w` is in none of the stored strings -/
def needsRuns (d : Gen.D) (s w : String) : Bool :=
  match pStatements d 4000 (toks s) with
  | .ok ss => FullDStmts ss && !runsOK d 4000 ((toks s).length + 1) (toks s) && !(tStmts ss).any (fun x => (x.splitOn w).length > 1)
  | _ => false
/-- accepted, the token hypothesis holds, the RESULT is outside the fragment, and the word `w` is in none of the stored strings -/
def needsFull (d : Gen.D) (s w : String) : Bool :=
  match pStatements d 4000 (toks s) with
  | .ok ss => !FullDStmts ss && runsOK d 4000 ((toks s).length + 1) (toks s) && !(tStmts ss).any (fun x => (x.splitOn w).length > 1)
  | _ => false

-- the theorem is not vacuous: SET, CREATE TABLE with every kind of element / attribute / option, ALTER ADD / MODIFY / CHANGE
#guard holds .HIVE "SET hive.exec-mode = a.b-c; SET x = 1"
#guard holds .MYSQL "CREATE TABLE IF NOT EXISTS db.t (a int NOT NULL AUTO_INCREMENT COMMENT 'x', b varchar(10) CHARACTER SET utf8 COLLATE utf8_bin DEFAULT 'q' NULL, c decimal(10, 2) UNSIGNED ZEROFILL DEFAULT 1 ON UPDATE now(1), g int GENERATED ALWAYS AS (a + 1) STORED, PRIMARY KEY (a), UNIQUE KEY uk (b(5), c) USING BTREE COMMENT 'k', KEY k2 (c) KEY_BLOCK_SIZE = 4, FULLTEXT KEY ft (b), CONSTRAINT fk1 FOREIGN KEY (a) REFERENCES p (id) ON DELETE CASCADE ON UPDATE SET NULL) ENGINE = InnoDB AUTO_INCREMENT = 7 DEFAULT CHARSET = utf8 ROW_FORMAT = DYNAMIC COLLATE = utf8_bin COMMENT = 'tbl' STATS_PERSISTENT = 1;"
#guard holds .HIVE "CREATE TABLE t (a int COMMENT 'c', b string) COMMENT 'x' PARTITIONED BY (dt string COMMENT 'd') ROW FORMAT SERDE 'org.S' STORED AS INPUTFORMAT 'i' OUTPUTFORMAT 'o' LOCATION '/p' TBLPROPERTIES ('k.x' = 'v', a.b-c = d)"
#guard holds .HIVE "CREATE TABLE t (a int) ROW FORMAT DELIMITED FIELDS TERMINATED BY ',' STORED AS TEXTFILE; CREATE TABLE u (b int COMMENT 'y') COMMENT 'z'"
#guard holds .MYSQL "ALTER TABLE t ADD c int DEFAULT 1 COMMENT 'x', MODIFY d varchar(3) NOT NULL COMMENT 'y', CHANGE e f bigint DEFAULT 2, ADD KEY k (c), DROP COLUMN z; SELECT a FROM t"
-- F-C08-4: the token hypothesis is needed (the result is in the fragment, the value is lost)
#guard needsRuns .MYSQL "CREATE TABLE t (a int DEFAULT 17 DEFAULT 2)" "17"
#guard needsRuns .MYSQL "CREATE TABLE t (a int) ENGINE = zzq9 ENGINE = b" "zzq9"
#guard needsRuns .MYSQL "ALTER TABLE t ADD a int COMMENT 'zzq9' COMMENT 'b'" "zzq9"
#guard needsRuns .MYSQL "ALTER TABLE t DROP COLUMN z, MODIFY a int DEFAULT 17 DEFAULT 2" "17"
-- the same defect at a new site: a second PRIMARY KEY element overwrites the first
#guard needsRuns .MYSQL "CREATE TABLE t (a int, b int, PRIMARY KEY (a(17)), PRIMARY KEY (b))" "17"
-- F-C08-6 on the tokens: PARTITIONED BY x / TBLPROPERTIES x leave no trace in the result
#guard needsRuns .HIVE "CREATE TABLE t (a int) PARTITIONED BY zzq9" "zzq9"
#guard needsRuns .HIVE "CREATE TABLE t (a int) TBLPROPERTIES zzq9" "zzq9"
-- F-C08-6 on the result: an index / a foreign key without a column, a CREATE TABLE without an element
#guard needsFull .MYSQL "CREATE TABLE t (a int, PRIMARY KEY zzq9)" "zzq9"
#guard needsFull .MYSQL "CREATE TABLE t (a int, CONSTRAINT c FOREIGN KEY zzq9 REFERENCES p (id))" "zzq9"
#guard needsFull .MYSQL "CREATE TABLE t zzq9" "zzq9"
-- flags may repeat; a repeated keyword inside a bracket group of another element does not count
#guard holds .MYSQL "CREATE TABLE t (a int NOT NULL NOT NULL UNSIGNED UNSIGNED DEFAULT f(1, 2), b int DEFAULT 3)"
-- the price of counting all top-level tokens of the run
#guard !holds .MYSQL "CREATE TABLE t (a int DEFAULT comment COMMENT 'x')"
end DdlW

end C08
