import MsqProofs.Lemmas.LexLinkDdl4
import MsqProofs.Props.C18T
import MsqProofs.Props.C03L
/-!
# C18 / C03 / C01 at TEXT level: the lexer link for CREATE TABLE, and the conversion theorem on texts

`C18T.lean` proves T-parse for CREATE TABLE on TOKENS (`C03.tcreate`: the statement parser returns the table definition from the token
rendering `TD.toksCreate d c`) and the conversion theorems on that rendering.  Here the link to TEXT is proved on the shipped (regenerated)
lexer table, for the WHOLE fragment `TD.FragCreate d c` and both renderings (`d = MYSQL`: `_source_mysql`, `d = HIVE`: `_source_hive`):

* `C18.lex_prCreate` : the printer `PR.prStmt d (.createTable c)` succeeds, its text is `LD.createL d c` (the column list on lines of its
  own, indented by two blanks, `,` + line break between them; `KEY=value` options; for Hive the leading blank and the bracket glued to the
  table name), and lexing it gives exactly `toksCreate d c`;  `C18.lex_prCreate_in_context` : the same inside any text, between tokens;
* `C03.tcreate_text` : text → dialect pre-pass → lexer → `pStatements` with the entry point's own fuel: `PM.parseStatementsText d text =
  ok [CREATE TABLE c]`;  `C01.create_round_trip_text` : … and printing what was parsed gives the same text;
* `C18.print_hiveProj` : the Hive printer's TEXT for any table is its text for the projection `hiveProj c` (what Hive DDL can state);
* `C18.schema_preserved_text_full` / `_catalogued` : the same with hypotheses on the MySQL table ONLY (the conditions on the converted
  table are derived: `LD.frag_conv`, `leaf_conv`, `noEq_conv`; `LD.HiveParams`: the parameters Hive keeps are in the Hive expression fragment);
* `C18.convert_round_trip_text` / `C18.schema_preserved_text` : **the property on texts** — a MySQL table of the fragment is printed,
  its text parsed as MySQL (giving the table back), converted with the shipped type table, printed for Hive, that TEXT parsed as Hive: the
  result is the Hive projection of the converted table and its schema view is the mapped view of the original (same schema, table, column
  names in order, comments, types mapped by `HASHMAP_MYSQL_TO_HIVE`, parameters only where Hive has them, partition columns, table comment).

**Hypotheses** besides the fragment (`LD.LeafC d c`, about payloads only; none assumes the link): names of tables / columns / index columns
without back-quote and TAB / CR / U+3000 (`nameLex`); type names plain words; the expressions in type parameters, DEFAULT, ON UPDATE,
GENERATED with `LexLink.Leaf` leaves (`Props/C01T.lean`); every raw-source payload — comments, charset / collation / engine / row format /
index / constraint names, USING methods, SERDE / INPUTFORMAT / OUTPUTFORMAT / LOCATION strings, property values — one of: a digit string,
a quoted string `'…'` / `"…"` of the escape grammar (doubled quotes, backslash escapes), a back-quoted name, a plain word (`LD.srcLex`;
TBLPROPERTIES keys too: they are written directly before `=`, `LD.tk_src_eq`).  For HIVE additionally `LD.NoEqC c`: no payload contains `==`
— the Hive dialect pre-pass rewrites `==` to `=` in the WHOLE text, also inside comments (findings F-C06-1/2: a comment `'a==b'` does
not survive print → parse for Hive; `C18.witness_hive_comment` is the evaluated witness on the model).  The exclusions of F-C18-1 (a type
outside the shipped map: `changeTypeT … = ok c'` is a hypothesis; `C18.changeTypeT_total` gives it for catalogued types), F-C18-2 (the
`rp` flag: the view keeps parameters only as the flag says) and F-C18-3 (dotted names: `tblOK` inside `FragCreate`) are as in `C18T.lean`.
Bool forms `C18.leafCB`, `C18.noEqCB` discharge the hypotheses by evaluation / `decide`.
-/
set_option linter.unusedVariables false
set_option linter.unusedSimpArgs false
open Lex PM Ast TP TS TD LexLink LD Conv

namespace C18

/-- **C18.lex_prCreate**: on every table of the fragment with lexable payloads the printer succeeds, prints `createL d c`, and lexing the
text gives exactly the token rendering `toksCreate d c` — for the MySQL and for the Hive rendering. -/
theorem lex_prCreate (d : Gen.D) (hd : d = .MYSQL ∨ d = .HIVE) (c : CreateTable) (hf : FragCreate d c = true) (hl : LeafC d c) :
    ∃ str : String, PR.prStmt d (.createTable c) = .ok str ∧ str.toList = createL d c ∧
      Lex.lex Gen.cfgS str.toList = .ok (toksCreate d c) := by
  rcases hd with rfl | rfl
  · refine ⟨String.ofList (createL .MYSQL c), prCreateMysql_eq c hf hl, String.toList_ofList, ?_⟩
    rw [String.toList_ofList, Lex.lex_plain _ _ (fun x hx => (List.all_eq_true.mp (allP_createMy c hf hl)) x hx)]
    exact C01.lexText_of_lx (lx_createMy c hf hl)
  · refine ⟨String.ofList (createL .HIVE c), prCreateHive_eq c hf hl, String.toList_ofList, ?_⟩
    rw [String.toList_ofList, Lex.lex_plain _ _ (fun x hx => (List.all_eq_true.mp (allP_createHive c hf hl)) x hx)]
    exact C01.lexText_of_lx (lx_createHive c hf hl)

/-- the link in context: inside any text, between tokens, before a delimiter (end of text, blank, `)`, `,`, line break), with any current
frame and frame stack -/
theorem lex_prCreate_in_context (d : Gen.D) (hd : d = .MYSQL ∨ d = .HIVE) (c : CreateTable) (hf : FragCreate d c = true) (hl : LeafC d c) :
    Lx (createL d c) (toksCreate d c) := by
  rcases hd with rfl | rfl
  · exact lx_createMy c hf hl
  · exact lx_createHive c hf hl

/-- the dialect pre-pass leaves the printed text alone: the identity for MySQL; for Hive because `==` does not occur -/
theorem pre_create (d : Gen.D) (hd : d = .MYSQL ∨ d = .HIVE) (c : CreateTable) (hf : FragCreate d c = true) (hl : LeafC d c)
    (hq : d = .HIVE → NoEqC c) : dialectPre d (createL d c) = createL d c := by
  rcases hd with rfl | rfl
  · exact C01.dialectPre_id _ (by decide) (by decide) _
  · exact C01.hivePre_no_occ _ (occ_createHive c hf hl (hq rfl))

end C18

namespace C03

/-- **C03.tcreate_text**: T-parse of CREATE TABLE at TEXT level — print, then the text pipeline of the public entry point
`parse_statements(text, dialect)` (dialect pre-pass, lexer with its own pre-pass, the statement loop with the fuel the entry point computes
from the token list) returns exactly `[CREATE TABLE c]`. -/
theorem tcreate_text (d : Gen.D) (hd : d = .MYSQL ∨ d = .HIVE) (c : CreateTable) (hf : FragCreate d c = true) (hl : LeafC d c)
    (hq : d = .HIVE → NoEqC c) :
    ∃ (str : String) (ts : List Tok), PR.prStmt d (.createTable c) = .ok str ∧
      Lex.lex Gen.cfgS (dialectPre d str.toList) = .ok ts ∧
      pStatement d (fuelFor ts) ts = .ok (.createTable c, []) ∧
      parseStatementsText d str.toList = .ok [.createTable c] := by
  obtain ⟨str, h1, h2, h3⟩ := C18.lex_prCreate d hd c hf hl
  have hlex : Lex.lex Gen.cfgS (dialectPre d str.toList) = .ok (toksCreate d c) := by
    rw [h2, C18.pre_create d hd c hf hl hq, ← h2]; exact h3
  have hfuel : 20 * sizeL (toksCreate d c) + 2 ≤ fuelFor (toksCreate d c) := by simp only [fuelFor]; omega
  refine ⟨str, toksCreate d c, h1, hlex, C01.create_round_trip_tokens d c hf _ hfuel, ?_⟩
  have := C03.tcreate_statements d c hf false _ hfuel
  simp only [Bool.false_eq_true, if_false, List.append_nil] at this
  unfold parseStatementsText
  simp only [hlex, this]

end C03

namespace C01

/-- **C01.create_round_trip_text**: print ∘ parse ∘ print = print for CREATE TABLE — the text parses to the one statement it was printed
from, and printing whatever statement list the text parses to gives the same text. -/
theorem create_round_trip_text (d : Gen.D) (hd : d = .MYSQL ∨ d = .HIVE) (c : CreateTable) (hf : FragCreate d c = true) (hl : LeafC d c)
    (hq : d = .HIVE → NoEqC c) :
    ∃ str : String, PR.prStmt d (.createTable c) = .ok str ∧ parseStatementsText d str.toList = .ok [.createTable c] ∧
      (∀ st, parseStatementsText d str.toList = .ok [st] → PR.prStmt d st = .ok str) := by
  obtain ⟨str, ts, h1, _, _, h4⟩ := C03.tcreate_text d hd c hf hl hq
  refine ⟨str, h1, h4, ?_⟩
  intro st hst
  rw [h4] at hst
  simp only [Except.ok.injEq, List.cons.injEq, and_true] at hst
  rw [← hst]; exact h1

end C01

namespace C18

/-! ### the Hive printer prints the projection -/

theorem prColType_hiveCol (t : ColType) :
    PR.prColType .HIVE ⟨t.name, if hiveKeepsParams t.name then t.params else none⟩ = PR.prColType .HIVE t := by
  obtain ⟨tn, ps⟩ := t
  cases ps with
  | none => cases hiveKeepsParams tn <;> rfl
  | some l =>
    cases hk : hiveKeepsParams tn with
    | true => rfl
    | false =>
      have hc : (Gen.D.HIVE == Gen.D.HIVE && !(["DECIMAL", "VARCHAR", "CHAR"].contains (Gen.pyUpperS tn))) = true := by
        have : (["DECIMAL", "VARCHAR", "CHAR"].contains (Gen.pyUpperS tn)) = false := hk
        rw [this]; rfl
      simp only [Bool.false_eq_true, if_false, PR.prColType, hc, if_true]

theorem prDefCol_congr (a b : DefCol) (hn : a.name = b.name) (ht : PR.prColType .HIVE a.type = PR.prColType .HIVE b.type)
    (hc : a.comment = b.comment) : PR.prDefCol .HIVE a = PR.prDefCol .HIVE b := by
  have hm : (Gen.D.HIVE == Gen.D.MYSQL) = false := rfl
  rw [prDefCol_unf .HIVE a]
  rw [prDefCol_unf .HIVE b]
  rw [ht]
  simp only [hm, prGen_false, prDflt_false, prOnUp_false]
  cases PR.prColType .HIVE b.type with
  | error e => simp only [bind, Except.bind]
  | ok ty =>
    simp only [bind, Except.bind, pure, Except.pure]
    unfold colStr
    simp only [flagStr_false, optStr_false, hn, hc]

theorem prDefCol_hiveCol (col : DefCol) : PR.prDefCol .HIVE (hiveCol col) = PR.prDefCol .HIVE col :=
  prDefCol_congr (hiveCol col) col rfl (prColType_hiveCol col.type) rfl

theorem mapM_hiveCol : ∀ (l : List DefCol), PR.mapM' (PR.prDefCol .HIVE) (l.map hiveCol) = PR.mapM' (PR.prDefCol .HIVE) l
  | [] => rfl
  | a :: r => by simp only [List.map_cons, PR.mapM', prDefCol_hiveCol, mapM_hiveCol r]

theorem prCreateHive_congr (a b : CreateTable) (h1 : PR.mapM' (PR.prDefCol .HIVE) a.columns = PR.mapM' (PR.prDefCol .HIVE) b.columns)
    (h2 : PR.mapM' (PR.prDefCol .HIVE) a.partitionedBy = PR.mapM' (PR.prDefCol .HIVE) b.partitionedBy)
    (h3 : ∀ cols parts, createHiveStr a cols parts = createHiveStr b cols parts) : PR.prCreateHive a = PR.prCreateHive b := by
  rw [prCreateHive_unf a]
  rw [prCreateHive_unf b]
  rw [h1, h2]
  simp only [h3]

theorem createHiveStr_congr (a b : CreateTable) (h1 : a.table = b.table) (h2 : a.ifNotExists = b.ifNotExists) (h3 : a.comment = b.comment)
    (h4 : a.partitionedBy.isEmpty = b.partitionedBy.isEmpty) (h5 : a.rowFormatSerde = b.rowFormatSerde)
    (h6 : a.rowFormatDelimited = b.rowFormatDelimited) (h7 : a.storedAsInputformat = b.storedAsInputformat)
    (h8 : a.storedAsTextfile = b.storedAsTextfile) (h9 : a.outputformat = b.outputformat) (h10 : a.location = b.location)
    (h11 : a.tblproperties = b.tblproperties) (cols parts : List String) : createHiveStr a cols parts = createHiveStr b cols parts := by
  unfold createHiveStr partStr PR.titleStr
  rw [h1, h2, h3, h4, h5, h6, h7, h8, h9, h10, h11]

/-- **the Hive printer prints the projection**: the Hive text of ANY table is the Hive text of `hiveProj c` — whatever MySQL-only
attribute, key or option the table has, `_source_hive` does not write it -/
theorem print_hiveProj (c : CreateTable) : PR.prStmt .HIVE (.createTable (hiveProj c)) = PR.prStmt .HIVE (.createTable c) := by
  have he : ∀ l : List DefCol, (l.map hiveCol).isEmpty = l.isEmpty := by intro l; cases l <;> rfl
  show PR.prCreateHive (hiveProj c) = PR.prCreateHive c
  exact prCreateHive_congr (hiveProj c) c (mapM_hiveCol c.columns) (mapM_hiveCol c.partitionedBy)
    (createHiveStr_congr (hiveProj c) c rfl rfl rfl (he c.partitionedBy) rfl rfl rfl rfl rfl rfl rfl)

/-! ### the conversion theorem on texts -/

/-- **print for Hive → parse the TEXT**: the Hive text of a converted table parses (as Hive, through `parse_statements`) to exactly its
Hive projection -/
theorem hive_round_trip_text (c' : CreateTable) (hf : FragCreate .HIVE (hiveProj c') = true) (hl : LeafC .HIVE (hiveProj c'))
    (hq : NoEqC (hiveProj c')) :
    ∃ hive : String, PR.prStmt .HIVE (.createTable c') = .ok hive ∧
      parseStatementsText .HIVE hive.toList = .ok [.createTable (hiveProj c')] := by
  obtain ⟨str, _, h1, _, _, h4⟩ := C03.tcreate_text .HIVE (Or.inr rfl) (hiveProj c') hf hl (fun _ => hq)
  rw [print_hiveProj] at h1
  exact ⟨str, h1, h4⟩

/-- **C18.convert_round_trip_text**: a MySQL table of the fragment is printed for MySQL and the TEXT parsed as MySQL (giving the table
back); converted with the shipped type table (`change_type`); printed for Hive and that TEXT parsed as Hive: the result is the Hive
projection of the converted table. -/
theorem convert_round_trip_text (rp : Bool) (c c' : CreateTable)
    (hf : FragCreate .MYSQL c = true) (hl : LeafC .MYSQL c)
    (h : changeTypeT Gen.mysqlToHive rp c = .ok c')
    (hf' : FragCreate .HIVE (hiveProj c') = true) (hl' : LeafC .HIVE (hiveProj c')) (hq : NoEqC (hiveProj c')) :
    ∃ (my hive : String),
      PR.prStmt .MYSQL (.createTable c) = .ok my ∧ parseStatementsText .MYSQL my.toList = .ok [.createTable c] ∧
      PR.prStmt .HIVE (.createTable c') = .ok hive ∧ parseStatementsText .HIVE hive.toList = .ok [.createTable (hiveProj c')] := by
  obtain ⟨my, _, m1, _, _, m4⟩ := C03.tcreate_text .MYSQL (Or.inl rfl) c hf hl (fun e => by cases e)
  obtain ⟨hive, h1, h2⟩ := hive_round_trip_text c' hf' hl' hq
  exact ⟨my, hive, m1, m4, h1, h2⟩

/-- the Hive half for ANY table `c` (however it was obtained — e.g. parsed from any MySQL text, not only from the canonical print):
convert with the shipped map, print for Hive, parse that TEXT as Hive: the schema view of the result is the mapped view of `c`.
Hypotheses only on the converted table (decidable: `hiveOK c'` via `fragHive_of_conv`, `leafCB`, `noEqCB`) -/
theorem schema_preserved_hive_text (rp : Bool) (c c' : CreateTable) (h : changeTypeT Gen.mysqlToHive rp c = .ok c')
    (hf' : FragCreate .HIVE (hiveProj c') = true) (hl' : LeafC .HIVE (hiveProj c')) (hq : NoEqC (hiveProj c')) :
    ∃ (hive : String) (p : CreateTable) (cols : List ColView),
      PR.prStmt .HIVE (.createTable c') = .ok hive ∧ parseStatementsText .HIVE hive.toList = .ok [.createTable p] ∧
      mapCols Gen.mysqlToHive rp (view c).cols = some cols ∧
      view p = ⟨(view c).schema, (view c).table, cols.map ColView.hive, (view c).parts.map ColView.hive, (view c).comment⟩ := by
  obtain ⟨hive, h1, h2⟩ := hive_round_trip_text c' hf' hl' hq
  obtain ⟨v1, v2, v3, v4, v5⟩ := C18.changeTypeT_view Gen.mysqlToHive rp c c' h
  refine ⟨hive, hiveProj c', (view c').cols, h1, h2, v1, ?_⟩
  rw [view_hiveProj, ← v2, ← v3, ← v4, ← v5]
  rfl

/-- **C18.schema_preserved_text**: parse a MySQL CREATE TABLE text → convert with `HASHMAP_MYSQL_TO_HIVE` → print for Hive → parse that
text as Hive: the parsed table declares the schema, the table name, the column names in order, the comments, the types mapped by the
shipped map with parameters only where Hive has them, the partition columns and the table comment of the MySQL table. -/
theorem schema_preserved_text (rp : Bool) (c c' : CreateTable)
    (hf : FragCreate .MYSQL c = true) (hl : LeafC .MYSQL c)
    (h : changeTypeT Gen.mysqlToHive rp c = .ok c')
    (hf' : FragCreate .HIVE (hiveProj c') = true) (hl' : LeafC .HIVE (hiveProj c')) (hq : NoEqC (hiveProj c')) :
    ∃ (my hive : String) (p : CreateTable) (cols : List ColView),
      PR.prStmt .MYSQL (.createTable c) = .ok my ∧ parseStatementsText .MYSQL my.toList = .ok [.createTable c] ∧
      PR.prStmt .HIVE (.createTable c') = .ok hive ∧ parseStatementsText .HIVE hive.toList = .ok [.createTable p] ∧
      mapCols Gen.mysqlToHive rp (view c).cols = some cols ∧
      view p = ⟨(view c).schema, (view c).table, cols.map ColView.hive, (view c).parts.map ColView.hive, (view c).comment⟩ := by
  obtain ⟨my, hive, m1, m2, h1, h2⟩ := convert_round_trip_text rp c c' hf hl h hf' hl' hq
  obtain ⟨v1, v2, v3, v4, v5⟩ := C18.changeTypeT_view Gen.mysqlToHive rp c c' h
  refine ⟨my, hive, hiveProj c', (view c').cols, m1, m2, h1, h2, v1, ?_⟩
  rw [view_hiveProj, ← v2, ← v3, ← v4, ← v5]
  rfl

end C18

/-! ## decidable forms of the payload hypotheses -/
namespace C18

def quotedB (s : String) : Bool :=
  match s.toList with
  | q :: r => (q == '\'' || q == '"') && r.getLast? == some q && C06.strBody q r.dropLast && r.dropLast.all C05.plain
  | [] => false
def srcLexB (s : String) : Bool :=
  (!s.toList.isEmpty && s.toList.all fun x => Spec.isDigit x.toNat) || quotedB s ||
  (match s.toList with
    | q :: r => q == '`' && r.getLast? == some '`' && r.dropLast.all (fun x => x != '`' && C05.plain x)
    | [] => false) ||
  plainL s.toList
def optB (f : String → Bool) : Option String → Bool | none => true | some s => f s
def optEB (d : Gen.D) : Option Expr → Bool | none => true | some e => C01.leafB d e
def leafColB (d : Gen.D) (c : DefCol) : Bool :=
  C03.nameLexB c.name && plainL c.type.name.toList && (match c.type.params with | some ps => ps.all (C01.leafB d) | none => true) &&
    optB srcLexB c.charset && optB srcLexB c.collate && (match c.generated with | some g => C01.leafB d g.e | none => true) &&
    optEB d c.default && optEB d c.onUpdate && optB srcLexB c.comment
def leafIdxB (i : Index) : Bool :=
  optB srcLexB i.name && i.cols.all (fun c => C03.nameLexB c.name) && optB srcLexB i.usingMethod && optB srcLexB i.comment
def leafFkB (k : ForeignKey) : Bool := srcLexB k.constraint && k.slave.all srcLexB && srcLexB k.master && k.masterCols.all srcLexB
/-- `LeafC d c`, decidable -/
def leafCB (d : Gen.D) (c : CreateTable) : Bool :=
  optB C03.nameLexB c.table.schema && C03.nameLexB c.table.name && c.columns.all (leafColB d) &&
    (match c.primaryKey with | some i => leafIdxB i | none => true) && c.uniqueKey.all leafIdxB && c.key.all leafIdxB &&
    c.fulltextKey.all leafIdxB && c.foreignKey.all leafFkB && c.partitionedBy.all (leafColB d) && optB srcLexB c.comment &&
    optB srcLexB c.engine && optB srcLexB c.defaultCharset && optB srcLexB c.collate && optB srcLexB c.rowFormat &&
    optB srcLexB c.statesPersistent && optB srcLexB c.rowFormatSerde && optB srcLexB c.rowFormatDelimited &&
    optB srcLexB c.storedAsInputformat && optB srcLexB c.outputformat && optB srcLexB c.location &&
    c.tblproperties.all (fun p => srcLexB p.name && srcLexB p.value)

theorem nameLex_of_B (n : String) (h : C03.nameLexB n = true) : nameLex n := by
  simp only [C03.nameLexB, List.all_eq_true, Bool.and_eq_true, bne_iff_ne, ne_eq] at h
  exact fun x hx => h x hx

theorem quoted_of_B (s : String) (h : quotedB s = true) : quotedLex s := by
  unfold quotedB at h
  cases hv : s.toList with
  | nil => rw [hv] at h; cases h
  | cons q r =>
    rw [hv] at h
    simp only [Bool.and_eq_true, Bool.or_eq_true, beq_iff_eq, List.all_eq_true] at h
    obtain ⟨⟨⟨hq, hlast⟩, hb⟩, hp⟩ := h
    have hr : r = r.dropLast ++ [q] := C01.dropLast_getLast r q hlast
    rcases hq with rfl | rfl
    · exact ⟨.sq, r.dropLast, by decide, by rw [hv, C06.QK.wrap]; exact congrArg _ hr, hb, hp⟩
    · exact ⟨.dq, r.dropLast, by decide, by rw [hv, C06.QK.wrap]; exact congrArg _ hr, hb, hp⟩

theorem srcLex_of_B (s : String) (h : srcLexB s = true) : srcLex s := by
  simp only [srcLexB, Bool.or_eq_true] at h
  rcases h with ((h | h) | h) | h
  · simp only [Bool.and_eq_true, Bool.not_eq_eq_eq_not, Bool.not_true, List.isEmpty_eq_false_iff, List.all_eq_true] at h
    exact Or.inl h
  · exact Or.inr (Or.inl (quoted_of_B s h))
  · cases hv : s.toList with
    | nil => rw [hv] at h; cases h
    | cons q r =>
      rw [hv] at h
      simp only [Bool.and_eq_true, beq_iff_eq, List.all_eq_true, bne_iff_ne, ne_eq] at h
      obtain ⟨⟨hq, hlast⟩, hb⟩ := h
      have hr : r = r.dropLast ++ ['`'] := C01.dropLast_getLast r '`' hlast
      subst hq
      exact Or.inr (Or.inr (Or.inl ⟨r.dropLast, by rw [hv]; exact congrArg _ hr, fun x hx => hb x hx⟩))
  · exact Or.inr (Or.inr (Or.inr h))

theorem optSrc_of_B (o : Option String) (h : optB srcLexB o = true) : optSrcLex o := by
  cases o with
  | none => trivial
  | some s => exact srcLex_of_B s h

theorem optLeaf_of_B (d : Gen.D) (o : Option Expr) (h : optEB d o = true) : optLeaf d o := by
  cases o with
  | none => trivial
  | some e => exact C03.leafE d e h

theorem leafCol_of_B (d : Gen.D) (c : DefCol) (h : leafColB d c = true) : LeafCol d c := by
  obtain ⟨n, ⟨tn, ps⟩, us, zf, cs, co, gen, an, nn, ai, df, ou, cm⟩ := c
  simp only [leafColB, Bool.and_eq_true] at h
  obtain ⟨⟨⟨⟨⟨⟨⟨⟨h1, h2⟩, h3⟩, h4⟩, h5⟩, h6⟩, h7⟩, h8⟩, h9⟩ := h
  refine ⟨nameLex_of_B _ h1, ⟨h2, ?_⟩, optSrc_of_B _ h4, optSrc_of_B _ h5, ?_, optLeaf_of_B d _ h7, optLeaf_of_B d _ h8, optSrc_of_B _ h9⟩
  · intro l hl e he
    have hl' : ps = some l := hl
    subst hl'
    simp only [List.all_eq_true] at h3
    exact C03.leafE d e (h3 e he)
  · cases gen with
    | none => trivial
    | some g => exact C03.leafE d g.e h6

theorem leafIdx_of_B (i : Index) (h : leafIdxB i = true) : LeafIdx i := by
  simp only [leafIdxB, Bool.and_eq_true, List.all_eq_true] at h
  exact ⟨optSrc_of_B _ h.1.1.1, fun c hc => nameLex_of_B _ (h.1.1.2 c hc), optSrc_of_B _ h.1.2, optSrc_of_B _ h.2⟩

theorem leafFk_of_B (k : ForeignKey) (h : leafFkB k = true) : LeafFk k := by
  simp only [leafFkB, Bool.and_eq_true, List.all_eq_true] at h
  exact ⟨srcLex_of_B _ h.1.1.1, fun n hn => srcLex_of_B _ (h.1.1.2 n hn), srcLex_of_B _ h.1.2, fun n hn => srcLex_of_B _ (h.2 n hn)⟩

/-- the Bool form implies the payload hypotheses -/
theorem leafC_of_B (d : Gen.D) (c : CreateTable) (h : leafCB d c = true) : LeafC d c := by
  simp only [leafCB, Bool.and_eq_true, List.all_eq_true] at h
  obtain ⟨⟨⟨⟨⟨⟨⟨⟨⟨⟨⟨⟨⟨⟨⟨⟨⟨⟨⟨⟨h1, h2⟩, h3⟩, h4⟩, h5⟩, h6⟩, h7⟩, h8⟩, h9⟩, h10⟩, h11⟩, h12⟩, h13⟩, h14⟩, h15⟩, h16⟩, h17⟩, h18⟩, h19⟩, h20⟩, h21⟩ := h
  refine ⟨?_, nameLex_of_B _ h2, fun x hx => leafCol_of_B d x (h3 x hx), ?_, fun i hi => leafIdx_of_B i (h5 i hi),
    fun i hi => leafIdx_of_B i (h6 i hi), fun i hi => leafIdx_of_B i (h7 i hi), fun k hk => leafFk_of_B k (h8 k hk),
    fun x hx => leafCol_of_B d x (h9 x hx), optSrc_of_B _ h10, optSrc_of_B _ h11, optSrc_of_B _ h12, optSrc_of_B _ h13, optSrc_of_B _ h14,
    optSrc_of_B _ h15, optSrc_of_B _ h16, optSrc_of_B _ h17, optSrc_of_B _ h18, optSrc_of_B _ h19, optSrc_of_B _ h20, ?_⟩
  · cases hs : c.table.schema with
    | none => trivial
    | some s => rw [hs] at h1; exact nameLex_of_B s h1
  · intro i hi
    rw [hi] at h4
    exact leafIdx_of_B i h4
  · intro p hp
    have := h21 p hp
    exact ⟨srcLex_of_B _ this.1, srcLex_of_B _ this.2⟩

def noEqS (s : String) : Bool := !C01.occ s.toList
/-- `C01.noEqEq`, decidable -/
def noEqEB : Expr → Bool
  | .column _ c => noEqS c
  | .literal v => noEqS v
  | .unary _ e => noEqEB e
  | .compute l _ r => noEqEB l && noEqEB r
  | .kw _ _ l r => noEqEB l && noEqEB r
  | .between _ b f t => noEqEB b && noEqEB f && noEqEB t
  | .compare _ l r => noEqEB l && noEqEB r
  | .not_ e => noEqEB e
  | .and_ l r => noEqEB l && noEqEB r
  | .xor l r => noEqEB l && noEqEB r
  | .or_ l r => noEqEB l && noEqEB r
  | _ => true
def noEqColB (c : DefCol) : Bool :=
  noEqS c.name && (match c.type.params with | some ps => ps.all noEqEB | none => true) && optB noEqS c.comment
/-- `NoEqC c`, decidable -/
def noEqCB (c : CreateTable) : Bool :=
  noEqS (tblStr c.table) && c.columns.all noEqColB && c.partitionedBy.all noEqColB && optB noEqS c.comment && optB noEqS c.rowFormatSerde &&
    optB noEqS c.rowFormatDelimited && optB noEqS c.storedAsInputformat && optB noEqS c.outputformat && optB noEqS c.location &&
    c.tblproperties.all fun p => noEqS p.name && noEqS p.value

theorem noEqS_ok (s : String) (h : noEqS s = true) : C01.occ s.toList = false := by simpa [noEqS] using h
theorem optNoEq_of_B (o : Option String) (h : optB noEqS o = true) : optNoEq o := by
  cases o with
  | none => trivial
  | some s => exact noEqS_ok s h

theorem noEqE_of_B : ∀ (n : Nat) (e : Expr), sz e ≤ n → noEqEB e = true → C01.noEqEq e := by
  intro n
  induction n with
  | zero => intro e he; cases e <;> simp [sz] at he
  | succ n ih =>
    intro e he h
    cases e <;> simp only [sz] at he <;> simp only [noEqEB, Bool.and_eq_true] at h <;> simp only [C01.noEqEq] <;> try trivial
    case column t c => exact noEqS_ok c h
    case literal v => exact noEqS_ok v h
    case unary o y => exact ih y (by omega) h
    case compute l o r => exact ⟨ih l (by omega) h.1, ih r (by omega) h.2⟩
    case kw k n0 l r => exact ⟨ih l (by omega) h.1, ih r (by omega) h.2⟩
    case between n0 b f t => exact ⟨ih b (by omega) h.1.1, ih f (by omega) h.1.2, ih t (by omega) h.2⟩
    case compare o l r => exact ⟨ih l (by omega) h.1, ih r (by omega) h.2⟩
    case not_ y => exact ih y (by omega) h
    case and_ l r => exact ⟨ih l (by omega) h.1, ih r (by omega) h.2⟩
    case xor l r => exact ⟨ih l (by omega) h.1, ih r (by omega) h.2⟩
    case or_ l r => exact ⟨ih l (by omega) h.1, ih r (by omega) h.2⟩

theorem noEqCol_of_B (c : DefCol) (h : noEqColB c = true) : NoEqCol c := by
  obtain ⟨n, ⟨tn, ps⟩, us, zf, cs, co, gen, an, nn, ai, df, ou, cm⟩ := c
  simp only [noEqColB, Bool.and_eq_true] at h
  refine ⟨noEqS_ok _ h.1.1, ?_, optNoEq_of_B _ h.2⟩
  intro l hl e he
  have hl' : ps = some l := hl
  subst hl'
  have := h.1.2
  simp only [List.all_eq_true] at this
  exact noEqE_of_B _ e (Nat.le_refl _) (this e he)

theorem noEqC_of_B (c : CreateTable) (h : noEqCB c = true) : NoEqC c := by
  simp only [noEqCB, Bool.and_eq_true, List.all_eq_true] at h
  obtain ⟨⟨⟨⟨⟨⟨⟨⟨⟨h1, h2⟩, h3⟩, h4⟩, h5⟩, h6⟩, h7⟩, h8⟩, h9⟩, h10⟩ := h
  exact ⟨noEqS_ok _ h1, fun x hx => noEqCol_of_B x (h2 x hx), fun x hx => noEqCol_of_B x (h3 x hx), optNoEq_of_B _ h4, optNoEq_of_B _ h5,
    optNoEq_of_B _ h6, optNoEq_of_B _ h7, optNoEq_of_B _ h8, optNoEq_of_B _ h9,
    fun p hp => ⟨noEqS_ok _ (h10 p hp).1, noEqS_ok _ (h10 p hp).2⟩⟩

/-- **the property on texts, hypotheses on the MySQL table only**: `c` in the MySQL fragment with lexable payloads none of which contains
`==` (F-C06-2), the parameters Hive will keep in the Hive expression fragment (`HiveParams`: integer literals are), `change_type` succeeds
(F-C18-1).  Then: the MySQL text of `c` parses to `c`; the Hive text of the converted table parses (as Hive) to a table whose schema
view is the mapped view of `c`.  The three conditions on the converted table are DERIVED (`LD.frag_conv`, `leaf_conv`, `noEq_conv`). -/
theorem schema_preserved_text_full (rp : Bool) (c c' : CreateTable)
    (hf : FragCreate .MYSQL c = true) (hl : LeafC .MYSQL c) (hq : NoEqC c) (hp : HiveParams rp c)
    (h : changeTypeT Gen.mysqlToHive rp c = .ok c') :
    ∃ (my hive : String) (p : CreateTable) (cols : List ColView),
      PR.prStmt .MYSQL (.createTable c) = .ok my ∧ parseStatementsText .MYSQL my.toList = .ok [.createTable c] ∧
      PR.prStmt .HIVE (.createTable c') = .ok hive ∧ parseStatementsText .HIVE hive.toList = .ok [.createTable p] ∧
      mapCols Gen.mysqlToHive rp (view c).cols = some cols ∧
      view p = ⟨(view c).schema, (view c).table, cols.map ColView.hive, (view c).parts.map ColView.hive, (view c).comment⟩ :=
  schema_preserved_text rp c c' hf hl h (frag_conv rp c c' hf hl h hp) (leaf_conv rp c c' hf hl h) (noEq_conv rp c c' hf hl h hq)

/-- … and for tables whose column types are all in the parser's catalogue the conversion succeeds by itself (`C18.changeTypeT_total`):
no hypothesis about `change_type` is left -/
theorem schema_preserved_text_catalogued (rp : Bool) (c : CreateTable)
    (hf : FragCreate .MYSQL c = true) (hl : LeafC .MYSQL c) (hq : NoEqC c) (hp : HiveParams rp c)
    (hcat : ∀ col ∈ c.columns, Catalogued col) :
    ∃ (c' : CreateTable) (my hive : String) (p : CreateTable) (cols : List ColView),
      changeTypeT Gen.mysqlToHive rp c = .ok c' ∧
      PR.prStmt .MYSQL (.createTable c) = .ok my ∧ parseStatementsText .MYSQL my.toList = .ok [.createTable c] ∧
      PR.prStmt .HIVE (.createTable c') = .ok hive ∧ parseStatementsText .HIVE hive.toList = .ok [.createTable p] ∧
      mapCols Gen.mysqlToHive rp (view c).cols = some cols ∧
      view p = ⟨(view c).schema, (view c).table, cols.map ColView.hive, (view c).parts.map ColView.hive, (view c).comment⟩ := by
  obtain ⟨c', h⟩ := C18.changeTypeT_total rp c hcat
  obtain ⟨my, hive, p, cols, r⟩ := schema_preserved_text_full rp c c' hf hl hq hp h
  exact ⟨c', my, hive, p, cols, h, r⟩

/-- **the property on texts with decidable hypotheses**: everything about the two tables is a Bool that evaluates (`FragCreate`, `leafCB`,
the sufficient condition `hiveOK` of `C18T.lean` for the Hive fragment, `noEqCB`); `changeTypeT … = ok c'` is the exclusion of F-C18-1 -/
theorem schema_preserved_text_B (rp : Bool) (c c' : CreateTable)
    (hf : FragCreate .MYSQL c = true) (hl : leafCB .MYSQL c = true)
    (h : changeTypeT Gen.mysqlToHive rp c = .ok c')
    (hok : hiveOK c' = true) (hl' : leafCB .HIVE (hiveProj c') = true) (hq : noEqCB (hiveProj c') = true) :
    ∃ (my hive : String) (p : CreateTable) (cols : List ColView),
      PR.prStmt .MYSQL (.createTable c) = .ok my ∧ parseStatementsText .MYSQL my.toList = .ok [.createTable c] ∧
      PR.prStmt .HIVE (.createTable c') = .ok hive ∧ parseStatementsText .HIVE hive.toList = .ok [.createTable p] ∧
      mapCols Gen.mysqlToHive rp (view c).cols = some cols ∧
      view p = ⟨(view c).schema, (view c).table, cols.map ColView.hive, (view c).parts.map ColView.hive, (view c).comment⟩ :=
  schema_preserved_text rp c c' hf (leafC_of_B _ _ hl) h (fragHive_of_conv c' hok) (leafC_of_B _ _ hl') (noEqC_of_B _ hq)

end C18

/-! ## non-vacuity -/
namespace C18L
open C18

/-- the whole text pipeline, evaluated: print, `parse_statements` on the text, compare -/
def textRoundTrips (d : Gen.D) (c : CreateTable) : Bool :=
  match PR.prStmt d (.createTable c) with
  | .ok s => s.toList == createL d c &&
      (match parseStatementsText d s.toList with
       | .ok [.createTable c'] => showCT c' == showCT c
       | _ => false)
  | .error _ => false
/-- hypotheses (Bool forms) and conclusion for a MySQL DDL text -/
def okMyText (ddl : String) : Bool :=
  match parseMy ddl with
  | some c => FragCreate .MYSQL c && leafCB .MYSQL c && textRoundTrips .MYSQL c
  | none => false
/-- parse as MySQL, convert, print for Hive, parse the Hive TEXT: hypotheses (Bool forms) of `schema_preserved_text` and its conclusion -/
def okConvText (ddl : String) (rp : Bool) : Bool :=
  match parseMy ddl with
  | some c => FragCreate .MYSQL c && leafCB .MYSQL c &&
    (match changeTypeT Gen.mysqlToHive rp c with
     | .ok c' => FragCreate .HIVE (hiveProj c') && leafCB .HIVE (hiveProj c') && noEqCB (hiveProj c') &&
        (match PR.prStmt .HIVE (.createTable c') with
         | .ok s => s.toList == createL .HIVE (hiveProj c') &&
            (match parseStatementsText .HIVE s.toList with
             | .ok [.createTable p] => showCT p == showCT (hiveProj c')
             | _ => false)
         | .error _ => false)
     | .error _ => false)
  | none => false

-- the DDL texts of `C18T.lean` (every attribute, key, foreign key and option; comments with doubled quotes and double-quoted strings;
-- names needing back-quotes; schema-qualified names)
#guard okMyText ddl1 && okMyText ddl2 && okMyText ddl3 && okMyText ddl4 && okMyText ddl5 && okMyText ddl6
#guard okConvText ddl1 false && okConvText ddl1 true && okConvText ddl2 true && okConvText ddl4 false && okConvText ddl4 true &&
  okConvText ddl5 false && okConvText ddl6 true
-- Hive tables with every Hive option
def hiveAll (c : CreateTable) : Bool :=
  FragCreate .HIVE (hiveProj c) && leafCB .HIVE (hiveProj c) && noEqCB (hiveProj c) && textRoundTrips .HIVE (hiveProj c)
#guard (match hiveFull with | some c => hiveAll c | none => false)
#guard (match hiveText with | some c => hiveAll c | none => false)
/-- **every type of the regenerated catalogue with 0, 1 and 2 parameters**, upper and lower case: the hypotheses hold and the text
pipeline gives the table back (MySQL), resp. the projection with the mapped view (converted, Hive) -/
def typeTextOK (name : String) (n : Nat) : Bool :=
  let c := typeTable name n
  FragCreate .MYSQL c && leafCB .MYSQL c && textRoundTrips .MYSQL c &&
    (match changeTypeT Gen.mysqlToHive false c with
     | .ok c' => FragCreate .HIVE (hiveProj c') && leafCB .HIVE (hiveProj c') && noEqCB (hiveProj c') && textRoundTrips .HIVE (hiveProj c') &&
        (match PR.prStmt .HIVE (.createTable c'), PR.prStmt .HIVE (.createTable (hiveProj c')) with
         | .ok a, .ok b => a == b
         | _, _ => false)
     | .error _ => false)
#guard Gen.mysqlDataTypes.all fun t => [0, 1, 2].all fun n => typeTextOK t.1 n && typeTextOK t.1.toLower n
-- the payload classes
#guard srcLexB "'it''s, (x) -- '" && srcLexB "\"a\\\"b\"" && srcLexB "utf8mb4_bin" && srcLexB "0" && srcLexB "`k 1`" && srcLexB "InnoDB" &&
  !srcLexB "'abc" && !srcLexB "a.b" && !srcLexB "a b" && !srcLexB "" && quotedB "'orc.compress'" && !quotedB "k"
/-- the Hive pre-pass inside a comment (F-C06-1/2 seen from CREATE TABLE): a column comment containing `==` is outside `NoEqC`, and
indeed print → parse for Hive does not give the table back (the comment comes back with `=`) -/
def hiveEq : CreateTable :=
  { emptyCreate ⟨none, "t"⟩ false with columns := [{ name := "a", type := ⟨"int", none⟩, comment := some "'x==y'" }] }
def witness_hive_comment : Bool :=
  FragCreate .HIVE hiveEq && leafCB .HIVE hiveEq && !noEqCB hiveEq && !textRoundTrips .HIVE hiveEq
#guard witness_hive_comment
/-- the same through the conversion pipeline of C18 (finding candidate, root cause F-C06-2): a MySQL table whose column comment contains
`==` is parsed, converted, printed for Hive and the Hive text parsed as Hive — the comment of the result is `'x=y'`, the schema view is
NOT the mapped view (on the real code: `SQLParser.parse_create_table_statement(" CREATE TABLE `t`(\n  `a` INT COMMENT 'x==y'\n)", SQLType.HIVE)`
has `columns[0].comment == "'x=y'"`) -/
def witness_conv_eqeq : Bool :=
  match parseMy "CREATE TABLE t (a int COMMENT 'x==y')" with
  | some c => FragCreate .MYSQL c && leafCB .MYSQL c &&
    (match changeTypeT Gen.mysqlToHive false c with
     | .ok c' => hiveOK c' && leafCB .HIVE (hiveProj c') && !noEqCB (hiveProj c') &&
        (match PR.prStmt .HIVE (.createTable c') with
         | .ok s => (match parseStatementsText .HIVE s.toList with
             | .ok [.createTable p] => (p.columns.map (·.comment)) == [some "'x=y'"] && (c'.columns.map (·.comment)) == [some "'x==y'"]
             | _ => false)
         | .error _ => false)
     | .error _ => false)
  | none => false
#guard witness_conv_eqeq
-- TBLPROPERTIES with keys of every payload class (quoted, plain word, digits, back-quoted), values likewise
def hiveProps : CreateTable :=
  { emptyCreate ⟨some "db", "t"⟩ true with
    columns := [{ name := "a", type := ⟨"STRING", none⟩ }],
    tblproperties := [⟨"'orc.compress'", "'SNAPPY'"⟩, ⟨"k", "v1"⟩, ⟨"b", "0"⟩, ⟨"7", "`x y`"⟩, ⟨"`q`", "\"d\""⟩] }
#guard FragCreate .HIVE hiveProps && leafCB .HIVE hiveProps && noEqCB hiveProps && textRoundTrips .HIVE hiveProps
/-- the hypotheses of `schema_preserved_text_full` (all on the MySQL table), evaluated -/
def fullHyps (rp : Bool) (c : CreateTable) : Bool :=
  FragCreate .MYSQL c && leafCB .MYSQL c && noEqCB c && hiveParamsB rp c &&
    c.columns.all fun col => Gen.mysqlDataTypes.any (·.1 == Gen.pyUpperS col.type.name)
def fullHypsText (ddl : String) (rp : Bool) : Bool := match parseMy ddl with | some c => fullHyps rp c | none => false
#guard fullHypsText ddl1 false && fullHypsText ddl1 true && fullHypsText ddl2 false && fullHypsText ddl3 false && fullHypsText ddl4 false &&
  fullHypsText ddl4 true && fullHypsText ddl6 true
-- `DECIMAL((1 = 1), 2)`: the parameter is in the Hive fragment too
#guard fullHypsText ddl5 false
#guard Gen.mysqlDataTypes.all fun t => [0, 1, 2].all fun n => fullHyps false (typeTable t.1 n) && fullHyps true (typeTable t.1.toLower n)

/-! instances of the theorems: hypotheses decided in the kernel on `C18.t1` (Hive) and `C18.t2` (MySQL) of `C18T.lean` -/
example : ∃ str, PR.prStmt .MYSQL (.createTable t2) = .ok str ∧ parseStatementsText .MYSQL str.toList = .ok [.createTable t2] ∧
    (∀ st, parseStatementsText .MYSQL str.toList = .ok [st] → PR.prStmt .MYSQL st = .ok str) :=
  C01.create_round_trip_text .MYSQL (Or.inl rfl) t2 (by decide) (leafC_of_B _ _ (by decide +kernel)) (fun e => by cases e)
example : ∃ str ts, PR.prStmt .HIVE (.createTable t1) = .ok str ∧ Lex.lex Gen.cfgS (dialectPre .HIVE str.toList) = .ok ts ∧
    pStatement .HIVE (fuelFor ts) ts = .ok (.createTable t1, []) ∧ parseStatementsText .HIVE str.toList = .ok [.createTable t1] :=
  C03.tcreate_text .HIVE (Or.inr rfl) t1 (by decide) (leafC_of_B _ _ (by decide +kernel)) (fun _ => noEqC_of_B _ (by decide +kernel))
example : Lex.lex Gen.cfgS (createL .MYSQL t2) = .ok (toksCreate .MYSQL t2) := by
  obtain ⟨str, _, h2, h3⟩ := lex_prCreate .MYSQL (Or.inl rfl) t2 (by decide) (leafC_of_B _ _ (by decide +kernel))
  rw [← h2]; exact h3

/-- **an instance of the full property on texts, every hypothesis decided in the kernel** (the MySQL table `C18.t2`: BIGINT(20) UNSIGNED
NOT NULL AUTO_INCREMENT, VARCHAR(8) CHARACTER SET … DEFAULT NULL COMMENT, PRIMARY KEY, KEY … USING BTREE, ENGINE, COMMENT) -/
example : ∃ (c' : CreateTable) (my hive : String) (p : CreateTable) (cols : List ColView),
      changeTypeT Gen.mysqlToHive false t2 = .ok c' ∧
      PR.prStmt .MYSQL (.createTable t2) = .ok my ∧ parseStatementsText .MYSQL my.toList = .ok [.createTable t2] ∧
      PR.prStmt .HIVE (.createTable c') = .ok hive ∧ parseStatementsText .HIVE hive.toList = .ok [.createTable p] ∧
      mapCols Gen.mysqlToHive false (view t2).cols = some cols ∧
      view p = ⟨(view t2).schema, (view t2).table, cols.map ColView.hive, (view t2).parts.map ColView.hive, (view t2).comment⟩ :=
  schema_preserved_text_catalogued false t2 (by decide) (leafC_of_B _ _ (by decide +kernel)) (noEqC_of_B _ (by decide +kernel))
    (hiveParams_of_B _ _ (by decide +kernel)) (by
      intro col hc
      simp only [t2, emptyCreate, List.mem_cons, List.mem_nil_iff, or_false] at hc
      rcases hc with rfl | rfl <;> (unfold Catalogued; decide +kernel))

end C18L
