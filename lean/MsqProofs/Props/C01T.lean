import MsqProofs.Lemmas.LexLinkPrint
/-!
# C01 / C02 at TEXT level: the lexer link of T-parse

`C02T.lean` proves T-parse on TOKENS: `pOr d fuel (TP.toksE d TP.noX e) = ok (e, [])` for every tree `e` of the operator
fragment `TP.Frag d e`.  Here the link to TEXT is proved, on the shipped (regenerated) lexer table:

* `C01.lex_prE`   : the printer succeeds on `e`, and lexing its text gives exactly `TP.toksE d TP.noX e`;
* `C01.lex_prE_in_context` : the same inside any text — between tokens, before a delimiter, under any bracket nesting;
* `C01.expr_round_trip_text` : text → dialect pre-pass → lexer → `pOr` (with the fuel the entry point computes) gives `e`
  back with nothing left, the public entry point `PM.parseText "logical_or_level_expression"` returns `(e, 0)`, and
  printing the result gives the same text again (print ∘ parse ∘ print = print);
* `C01.expr_round_trip_entry` : the model of the public entry point `parse_logical_or_level_expression(text, dialect)`
  returns `(e, 0)` on the printed text;
* `C02.tparse_text` : T-parse at text level (explicit fuel); `C02.text_determines_tree`.

**Covered**: the WHOLE fragment of `C02T.lean` — atoms, brackets, unary and binary compute operators, comparisons,
`NOT` / `AND` / `XOR` / `OR`, `IS [NOT]`, `[NOT] LIKE / RLIKE / REGEXP`, `[NOT] BETWEEN … AND …` — for every dialect.

**Hypotheses** besides `TP.Frag d e` (all about leaf payloads, `LexLink.Leaf d e`; none assumes the link):
* every column name is printed back-quoted verbatim and contains no back-quote and no character of the lexer's pre-pass
  (`colLex`; `colLex_of_plain`: true of every plain name `PR.isPlainName` except the pseudo columns `CURRENT_DATE`,
  `CURRENT_TIME`, `CURRENT_TIMESTAMP` — and, for DB2, names the DB2 printer rewrites);
* every literal payload is one the lexer reads back as ONE literal token (`litLex`): a non-empty digit string, a quoted
  string whose body obeys the escape grammar `C06.strBody` (this is exactly what the lexer ACCEPTS as one string token,
  so it is what the parser stores) without TAB / CR / U+3000, or a literal word (`TRUE` / `FALSE` / `NULL`);
* for DB2 and HIVE only: the dialect pre-pass (`CURRENT DATE` → `CURRENT_DATE` …, `==` → `=`: whole-text replacements,
  findings F-C06-1/2) leaves the printed text alone — `PM.dialectPre d text = text`; for the five other dialects this
  holds unconditionally (`dialectPre_id`), for HIVE it holds whenever no column name and no literal payload contains
  `==` (`hive_pre`: the printer itself never writes `==`); for DB2 it is a hypothesis.
-/
set_option linter.unusedVariables false
set_option linter.unusedSimpArgs false
open Lex PM Ast TP LexLink

namespace C01

/-- a plain column name that is none of the pseudo columns satisfies `colLex` (for every dialect but DB2) -/
theorem colLex_of_plain (d : Gen.D) (c : String) (hd : d ≠ .DB2) (hp : PR.isPlainName c = true)
    (hs : ["*", "CURRENT_DATE", "CURRENT_TIME", "CURRENT_TIMESTAMP"].contains c = false) : colLex d c := by
  constructor
  · have hd' : (d == Gen.D.DB2) = false := by cases d <;> first | rfl | exact absurd rfl hd
    have : PR.columnSrc d none c = s!"`{c}`" := by
      unfold PR.columnSrc
      simp only [hs, hd', Bool.false_eq_true, if_false]
    rw [this]
    simp only [toString, String.toList_append]
    rfl
  · intro x hx
    unfold PR.isPlainName at hp
    cases hc : c.toList with
    | nil => rw [hc] at hx; cases hx
    | cons a r =>
      rw [hc] at hp hx
      simp only [Bool.and_eq_true, List.all_eq_true] at hp
      have key : ∀ y : Char, (y.isAlphanum || y == '_') = true → y ≠ '`' ∧ C05.plain y = true := by
        intro y hy
        have h1 : y ≠ '`' := by intro e; subst e; revert hy; decide
        have h2 : y ≠ '\t' ∧ y ≠ '\r' ∧ y ≠ Char.ofNat 12288 := by
          refine ⟨?_, ?_, ?_⟩ <;> intro e <;> subst e <;> revert hy <;> decide
        refine ⟨h1, ?_⟩
        simp only [C05.plain, Lex.Plain, Gen.preChain, List.all_cons, List.all_nil, Bool.and_true, Bool.and_eq_true, bne_iff_ne,
          ne_eq]
        exact ⟨fun e => h2.2.1 e.symm, fun e => h2.1 e.symm, fun e => h2.2.2 e.symm⟩
      rcases List.mem_cons.mp hx with rfl | hx
      · apply key
        rcases Bool.or_eq_true _ _ ▸ hp.1 with h | h
        · simp [Char.isAlphanum, h]
        · simp [h]
      · exact key x (hp.2 x hx)

/-- the dialect pre-pass does nothing for five of the seven dialects -/
theorem dialectPre_id (d : Gen.D) (h1 : d ≠ .DB2) (h2 : d ≠ .HIVE) (t : List Char) : dialectPre d t = t := by
  cases d <;> simp_all [dialectPre]

/-- the run of the lexer on a complete text, from the context lemma -/
theorem lexText_of_lx {u : List Char} {ts : List Tok} (h : Lx u ts) : lexText Gen.cfgS u = .ok ts := by
  have := h u [] [] [] [] (by simp) (Or.inl rfl)
  simp only [List.append_nil, List.length_nil, Nat.zero_add, List.nil_append] at this
  rw [lexText_eq_runTail]
  show runTail Gen.cfgS u u ⟨0, 0, .WAIT, [[]]⟩ = _
  rw [this, runTail_nil_wait]
  exact finish_end _ C05.shipped_depth C05.shipped_end _ _ _

/-- **C01.lex_prE**: the printer succeeds on every fragment tree with lexable leaves, and lexing the printed text gives
exactly the token rendering `toksE d noX e`. -/
theorem lex_prE (d : Gen.D) (e : Expr) (hf : Frag d e = true) (hl : Leaf d e) :
    ∃ s : String, PR.prE d e = .ok s ∧ s.toList = prEL d e ∧ Lex.lex Gen.cfgS s.toList = .ok (toksE d noX e) := by
  refine ⟨String.ofList (prEL d e), prE_eq d (sz e) e (Nat.le_refl _) hf hl, String.toList_ofList, ?_⟩
  rw [String.toList_ofList, Lex.lex_plain _ _ (fun c hc => (List.all_eq_true.mp (plain_prEL d (sz e) e (Nat.le_refl _) hf hl)) c hc)]
  exact lexText_of_lx (lx_prE d (sz e) e (Nat.le_refl _) hf hl)

/-- **the link in context**: inside any text `pre ++ text ++ rest` in which the lexer is between tokens before `text`
and `rest` is empty or begins with a blank or `)`, with any current frame `f` and frame stack `fs` (so under any bracket
nesting), the printed text appends exactly `toksE d noX e` and the lexer continues between tokens at `rest`. -/
theorem lex_prE_in_context (d : Gen.D) (e : Expr) (hf : Frag d e = true) (hl : Leaf d e) : Lx (prEL d e) (toksE d noX e) :=
  lx_prE d (sz e) e (Nat.le_refl _) hf hl

/-- **C01.expr_round_trip_text**: print, then the text pipeline of the public entry point (dialect pre-pass, lexer with
its own pre-pass, `pOr` with the fuel computed from the token list), gives the tree back with nothing left; and
printing the result gives the same text again. -/
theorem expr_round_trip_text (d : Gen.D) (e : Expr) (hf : Frag d e = true) (hl : Leaf d e)
    (hpre : dialectPre d (prEL d e) = prEL d e) :
    ∃ (s : String) (ts : List Tok), PR.prE d e = .ok s ∧
      Lex.lex Gen.cfgS (dialectPre d s.toList) = .ok ts ∧
      pOr d (fuelFor ts) ts = .ok (e, []) ∧
      (∀ e', pOr d (fuelFor ts) ts = .ok (e', []) → PR.prE d e' = .ok s) := by
  obtain ⟨s, hs, hsl, hlex⟩ := lex_prE d e hf hl
  refine ⟨s, toksE d noX e, hs, by rw [hsl, hpre, ← hsl]; exact hlex, ?_, ?_⟩
  · have := C02.tparse_entry_fuel d noX e hf [] rfl
    simpa using this
  · intro e' he'
    have := C02.tparse_entry_fuel d noX e hf [] rfl
    simp only [List.append_nil] at this
    rw [this] at he'
    simp only [Except.ok.injEq, Prod.mk.injEq, and_true] at he'
    rw [← he']; exact hs

theorem entry_or : (PM.entries.find? (·.1 == "logical_or_level_expression")).map (·.2) = some (PM.exprEntry PM.pOr) := by
  simp [PM.entries, List.find?]

/-- … and the public entry point `SQLParser.parse_logical_or_level_expression(text, sql_type)` of the model returns the
tree (as the generic value the driver compares with the implementation) and `0` unconsumed tokens -/
theorem expr_round_trip_entry (d : Gen.D) (e : Expr) (hf : Frag d e = true) (hl : Leaf d e)
    (hpre : dialectPre d (prEL d e) = prEL d e) :
    ∃ s : String, PR.prE d e = .ok s ∧ PM.parseText "logical_or_level_expression" d s.toList = .ok (e.toVal, 0) := by
  obtain ⟨s, ts, hs, hlex, hp, _⟩ := expr_round_trip_text d e hf hl hpre
  refine ⟨s, hs, ?_⟩
  unfold PM.parseText
  have he := entry_or
  cases hfd : PM.entries.find? (·.1 == "logical_or_level_expression") with
  | none => rw [hfd] at he; cases he
  | some pr =>
    rw [hfd] at he
    simp only [Option.map_some, Option.some.injEq] at he
    obtain ⟨nm, p⟩ := pr
    simp only at he
    subst he
    simp only [hlex, PM.exprEntry, hp, List.length_nil]

end C01

namespace C02

/-- **C02.tparse_text**: T-parse at text level — for every fragment tree with lexable leaves, the printed text lexes to
a token list on which the parser (any sufficient fuel) returns exactly the tree, nothing left. -/
theorem tparse_text (d : Gen.D) (e : Expr) (hf : Frag d e = true) (hl : Leaf d e) (fuel : Nat)
    (hfuel : 120 * sz e + 15 ≤ fuel) :
    ∃ (s : String) (ts : List Tok), PR.prE d e = .ok s ∧ Lex.lex Gen.cfgS s.toList = .ok ts ∧ pOr d fuel ts = .ok (e, []) := by
  obtain ⟨s, hs, _, hlex⟩ := C01.lex_prE d e hf hl
  refine ⟨s, toksE d noX e, hs, hlex, ?_⟩
  have := tparse_size d noX e hf [] rfl fuel hfuel
  simpa using this

/-- two fragment trees with the same printed TEXT are equal: brackets that change the grouping change the tree -/
theorem text_determines_tree (d : Gen.D) (e e' : Expr) (hf : Frag d e = true) (hf' : Frag d e' = true)
    (hl : Leaf d e) (hl' : Leaf d e') (h : PR.prE d e = PR.prE d e') : e = e' := by
  obtain ⟨s, hs, _, hlex⟩ := C01.lex_prE d e hf hl
  obtain ⟨s', hs', _, hlex'⟩ := C01.lex_prE d e' hf' hl'
  rw [hs, hs'] at h
  simp only [Except.ok.injEq] at h
  subst h
  rw [hlex] at hlex'
  simp only [Except.ok.injEq] at hlex'
  exact grouping_brackets_honoured d noX noX e e' hf hf' hlex'

end C02

/-! ## the Hive pre-pass (`==` → `=`, a whole-text replacement) leaves the printed text alone unless a literal contains `==` -/
namespace C01

/-- `==` occurs in the text -/
def occ : List Char → Bool
  | [] => false
  | c :: r => (c == '=' && r.head? == some '=') || occ r

theorem occ_cons2 (x y : Char) (r : List Char) : occ (x :: y :: r) = ((x == '=' && y == '=') || occ (y :: r)) := by
  simp [occ]

theorem occ_sep (a b : List Char) (c : Char) (hc : c ≠ '=') : occ (a ++ c :: b) = (occ a || occ b) := by
  have hc' : (c == '=') = false := by simpa using hc
  induction a with
  | nil => simp [occ, hc']
  | cons x a' ih =>
    cases a' with
    | nil =>
      have : (some c == some '=') = false := by simpa using hc
      simp [occ, hc', this]
    | cons y a'' =>
      simp only [List.cons_append] at ih ⊢
      rw [occ_cons2, occ_cons2, ih, Bool.or_assoc]

theorem occ_none (l : List Char) (h : ∀ x ∈ l, x ≠ '=') : occ l = false := by
  induction l with
  | nil => rfl
  | cons x r ih =>
    have hx : (x == '=') = false := by simpa using h x (by simp)
    simp [occ, hx, ih fun y hy => h y (by simp [hy])]

theorem replaceGo_no_occ (rep : List Char) : ∀ (f : Nat) (t : List Char), occ t = false →
    Py.replaceGo ['=', '='] rep f t = t := by
  intro f
  induction f with
  | zero => intro t _; rfl
  | succ f ih =>
    intro t h
    cases t with
    | nil => rfl
    | cons c r =>
      simp only [occ, Bool.or_eq_false_iff] at h
      have hp : List.isPrefixOf ['=', '='] (c :: r) = false := by
        cases r with
        | nil => simp [List.isPrefixOf]
        | cons y r' =>
          have := h.1
          simp only [List.head?_cons] at this
          simp only [List.isPrefixOf, Bool.and_true]
          by_cases hc : c = '=' <;> by_cases hy : y = '='
          · subst hc; subst hy; simp at this
          · subst hc; have : ('=' == y) = false := by simpa using fun e : '=' = y => hy e.symm
            simp [this]
          · have : ('=' == c) = false := by simpa using fun e : '=' = c => hc e.symm
            simp [this]
          · have : ('=' == c) = false := by simpa using fun e : '=' = c => hc e.symm
            simp [this]
      simp [Py.replaceGo, hp, ih r h.2]

theorem hivePre_no_occ (t : List Char) (h : occ t = false) : dialectPre .HIVE t = t := by
  have h1 : "==".toList = ['=', '='] := rfl
  have e1 : (Gen.D.HIVE == Gen.D.DB2) = false := rfl
  have e2 : (Gen.D.HIVE == Gen.D.HIVE) = true := rfl
  unfold dialectPre
  simp only [e1, e2, Bool.false_eq_true, if_false, if_true, h1]
  unfold Py.replace
  simp only [List.isEmpty_cons, Bool.false_eq_true, if_false]
  exact replaceGo_no_occ _ _ t h

/-- no column name and no literal payload contains `==` -/
def noEqEq : Expr → Prop
  | .column _ c => occ c.toList = false
  | .literal v => occ v.toList = false
  | .unary _ e => noEqEq e
  | .compute l _ r => noEqEq l ∧ noEqEq r
  | .kw _ _ l r => noEqEq l ∧ noEqEq r
  | .between _ b f t => noEqEq b ∧ noEqEq f ∧ noEqEq t
  | .compare _ l r => noEqEq l ∧ noEqEq r
  | .not_ e => noEqEq e
  | .and_ l r => noEqEq l ∧ noEqEq r
  | .xor l r => noEqEq l ∧ noEqEq r
  | .or_ l r => noEqEq l ∧ noEqEq r
  | _ => True

theorem compute_ops_occ : Gen.computeEnum.all (fun e => !occ e.2.1.toList) = true := by decide +kernel
theorem compare_ops_occ : Gen.compareEnum.all (fun e => match e.2 with | [x] => !occ x.toList | _ => false) = true := by
  decide +kernel
theorem kwSrc_occ (k : KwKind) (n : Bool) : occ (PR.kwSrc k n).toList = false := by cases k <;> cases n <;> decide +kernel

theorem occ_prEL (d : Gen.D) : ∀ (n : Nat) (e : Expr), sz e ≤ n → Frag d e = true → Leaf d e → noEqEq e →
    occ (prEL d e) = false := by
  intro n
  induction n with
  | zero => intro e he; cases e <;> simp [sz] at he
  | succ n ih =>
    intro e he hf hl hq
    have hb : (' ' : Char) ≠ '=' := by decide
    have w : ∀ (y : Expr) (k : Nat), sz y ≤ n → Frag d y = true → Leaf d y → noEqEq y → occ (wrapL y k (prEL d y)) = false := by
      intro y k hy hfy hly hqy
      have := ih y hy hfy hly hqy
      unfold wrapL
      split
      · have e1 : '(' :: (prEL d y ++ [')']) = [] ++ '(' :: (prEL d y ++ ')' :: []) := by simp
        rw [e1, occ_sep _ _ _ (by decide), occ_sep _ _ _ (by decide), this]; rfl
      · exact this
    have cv : ∀ o, PR.computeOpSrc d o = .ok (cval o) → occ (cval o).toList = false := by
      intro o h
      obtain ⟨e, he, hc⟩ := cval_mem d o h
      have := (List.all_eq_true.mp compute_ops_occ) e he
      rw [hc]; simpa using this
    have sep3 : ∀ a m b : List Char, occ a = false → occ m = false → occ b = false → occ (a ++ ' ' :: (m ++ ' ' :: b)) = false := by
      intro a m b h1 h2 h3
      rw [occ_sep _ _ _ hb, occ_sep _ _ _ hb, h1, h2, h3]; rfl
    cases e <;> simp only [sz] at he <;> (try simp only [Frag, Bool.and_eq_true] at hf) <;> (try simp only [Leaf] at hl) <;>
      (try simp only [noEqEq] at hq) <;> try (cases hf; done)
    case column t c =>
      have e1 : prEL d (.column t c) = [] ++ '`' :: (c.toList ++ '`' :: []) := by simp [prEL]
      rw [e1, occ_sep _ _ _ (by decide), occ_sep _ _ _ (by decide), hq]; rfl
    case literal v => simpa [prEL] using hq
    case unary o y =>
      have h1 := w y 2 (by omega) hf.2 hl hq
      have h2 := cv o (unOK_prints hf.1)
      have hsp := unary_spelling d o (by simp only [unOK, Bool.and_eq_true] at hf; exact hf.1.1.1.1)
      simp only [prEL]
      split
      · rw [occ_sep _ _ _ hb, h1, h2]; rfl
      · rcases hsp with e | e | e | e <;> rw [e] <;>
          (show occ ([] ++ _ :: wrapL y 2 (prEL d y)) = false) <;> rw [occ_sep _ _ _ (by decide), h1] <;> rfl
    case compute l o r =>
      exact sep3 _ _ _ (w l _ (by omega) hf.1.2 hl.1 hq.1) (cv o (binOK_prints hf.1.1)) (w r _ (by omega) hf.2 hl.2 hq.2)
    case kw k n0 l r =>
      exact sep3 _ _ _ (w l 9 (by omega) hf.1.2 hl.1 hq.1) (kwSrc_occ k n0) (w r 8 (by omega) hf.2 hl.2 hq.2)
    case between n0 b f t =>
      have h1 := w b 9 (by omega) hf.1.1 hl.1 hq.1
      have h2 := w f 8 (by omega) hf.1.2 hl.2.1 hq.2.1
      have h3 := w t 8 (by omega) hf.2 hl.2.2 hq.2.2
      have k2 : occ "BETWEEN".toList = false := by decide +kernel
      have k3 : occ "AND".toList = false := by decide +kernel
      have k1 : occ "NOT".toList = false := by decide +kernel
      have inner : occ ("BETWEEN".toList ++ ' ' :: (wrapL f 8 (prEL d f) ++ ' ' :: ("AND".toList ++ ' ' :: wrapL t 8 (prEL d t)))) = false := by
        rw [occ_sep _ _ _ hb, occ_sep _ _ _ hb, occ_sep _ _ _ hb, k2, h2, k3, h3]; rfl
      simp only [prEL]
      cases n0 with
      | false => simp only [Bool.false_eq_true, if_false, List.nil_append]; rw [occ_sep _ _ _ hb, h1, inner]; rfl
      | true =>
        have hN : "NOT ".toList = "NOT".toList ++ [' '] := rfl
        simp only [if_true, hN, List.append_assoc, List.cons_append, List.nil_append]
        rw [occ_sep _ _ _ hb, occ_sep _ _ _ hb, h1, k1, inner]; rfl
    case compare o l r =>
      have h3 : occ (cmpVal o).toList = false := by
        obtain ⟨e, he, hc⟩ := cmpVal_mem o (cmpOK_prints hf.1.1)
        have := (List.all_eq_true.mp compare_ops_occ) e he
        rw [hc]
        cases hl : e.2 with
        | nil => rw [hl] at this; cases this
        | cons x r => cases r with
          | nil =>
            rw [hl] at this
            have hj : PR.joinS " " [x] = x := rfl
            rw [hj]; simpa using this
          | cons y r' => rw [hl] at this; cases this
      exact sep3 _ _ _ (w l 10 (by omega) hf.1.2 hl.1 hq.1) h3 (w r 9 (by omega) hf.2 hl.2 hq.2)
    case not_ y =>
      have k1 : occ "NOT".toList = false := by decide +kernel
      simp only [prEL]; rw [occ_sep _ _ _ hb, k1, w y 11 (by omega) hf hl hq]; rfl
    case and_ l r =>
      have k1 : occ "AND".toList = false := by decide +kernel
      exact sep3 _ _ _ (w l 12 (by omega) hf.1 hl.1 hq.1) k1 (w r 11 (by omega) hf.2 hl.2 hq.2)
    case xor l r =>
      have k1 : occ "XOR".toList = false := by decide +kernel
      exact sep3 _ _ _ (w l 13 (by omega) hf.1 hl.1 hq.1) k1 (w r 12 (by omega) hf.2 hl.2 hq.2)
    case or_ l r =>
      have k1 : occ "OR".toList = false := by decide +kernel
      exact sep3 _ _ _ (w l 14 (by omega) hf.1 hl.1 hq.1) k1 (w r 13 (by omega) hf.2 hl.2 hq.2)

/-- for HIVE the pre-pass hypothesis of `expr_round_trip_text` holds whenever no column name and no literal payload contains `==` -/
theorem hive_pre (e : Expr) (hf : Frag .HIVE e = true) (hl : Leaf .HIVE e) (hq : noEqEq e) :
    dialectPre .HIVE (prEL .HIVE e) = prEL .HIVE e :=
  hivePre_no_occ _ (occ_prEL .HIVE (sz e) e (Nat.le_refl _) hf hl hq)

end C01

/-! ## a decidable form of the leaf hypotheses, and non-vacuity -/
namespace C01

def specialsL : List (List Char) := ["*".toList, "CURRENT_DATE".toList, "CURRENT_TIME".toList, "CURRENT_TIMESTAMP".toList]
/-- `colLex`, decidable: a plain name, none of the pseudo columns, dialect not DB2 -/
def colLexB (d : Gen.D) (c : String) : Bool := PR.isPlainName c && !specialsL.contains c.toList && d != .DB2
/-- `litLex`, decidable -/
def litLexB (v : String) : Bool :=
  (!v.toList.isEmpty && v.toList.all fun x => Spec.isDigit x.toNat) ||
  (match v.toList with
    | q :: r => (q == '\'' || q == '"') && r.getLast? == some q && C06.strBody q r.dropLast && r.dropLast.all C05.plain
    | [] => false) ||
  (C05.isWord v.toList && v.toList.all C05.plain)
def leafB (d : Gen.D) : Expr → Bool
  | .column _ c => colLexB d c
  | .literal v => litLexB v
  | .unary _ e => leafB d e
  | .compute l _ r => leafB d l && leafB d r
  | .kw _ _ l r => leafB d l && leafB d r
  | .between _ b f t => leafB d b && leafB d f && leafB d t
  | .compare _ l r => leafB d l && leafB d r
  | .not_ e => leafB d e
  | .and_ l r => leafB d l && leafB d r
  | .xor l r => leafB d l && leafB d r
  | .or_ l r => leafB d l && leafB d r
  | _ => true

theorem colLex_of_B (d : Gen.D) (c : String) (h : colLexB d c = true) : colLex d c := by
  simp only [colLexB, Bool.and_eq_true, Bool.not_eq_eq_eq_not, Bool.not_true, bne_iff_ne, ne_eq] at h
  refine colLex_of_plain d c h.2 h.1.1 ?_
  have hn := h.1.2
  simp only [List.contains_eq_mem, decide_eq_false_iff_not] at hn ⊢
  intro hm
  apply hn
  simp only [specialsL, List.mem_cons, List.mem_nil_iff, or_false] at hm ⊢
  rcases hm with e | e | e | e <;> simp [e]

theorem dropLast_getLast : ∀ (r : List Char) (q : Char), r.getLast? = some q → r = r.dropLast ++ [q]
  | [], _, h => by cases h
  | [a], q, h => by simp only [List.getLast?_singleton, Option.some.injEq] at h; subst h; rfl
  | a :: b :: r, q, h => by
    rw [List.getLast?_cons_cons] at h
    have := dropLast_getLast (b :: r) q h
    simp only [List.dropLast_cons_cons, List.cons_append]
    exact congrArg _ this

theorem litLex_of_B (v : String) (h : litLexB v = true) : litLex v := by
  simp only [litLexB, Bool.or_eq_true, Bool.and_eq_true, Bool.not_eq_eq_eq_not, Bool.not_true, List.isEmpty_eq_false_iff,
    List.all_eq_true] at h
  rcases h with (h | h) | h
  · exact Or.inl h
  · right; left
    cases hv : v.toList with
    | nil => rw [hv] at h; cases h
    | cons q r =>
      rw [hv] at h
      simp only [Bool.and_eq_true, Bool.or_eq_true, beq_iff_eq, List.all_eq_true] at h
      obtain ⟨⟨⟨hq, hlast⟩, hb⟩, hp⟩ := h
      have hr : r = r.dropLast ++ [q] := dropLast_getLast r q hlast
      rcases hq with rfl | rfl
      · exact ⟨.sq, r.dropLast, by decide, by rw [C06.QK.wrap]; exact congrArg _ hr, hb, hp⟩
      · exact ⟨.dq, r.dropLast, by decide, by rw [C06.QK.wrap]; exact congrArg _ hr, hb, hp⟩
  · exact Or.inr (Or.inr h)

theorem leaf_of_B (d : Gen.D) : ∀ (n : Nat) (e : Expr), sz e ≤ n → leafB d e = true → Leaf d e := by
  intro n
  induction n with
  | zero => intro e he; cases e <;> simp [sz] at he
  | succ n ih =>
    intro e he h
    cases e <;> simp only [sz] at he <;> simp only [leafB, Bool.and_eq_true] at h <;> simp only [Leaf] <;> try trivial
    case column t c => exact colLex_of_B d c h
    case literal v => exact litLex_of_B v h
    case unary o y => exact ih y (by omega) h
    case compute l o r => exact ⟨ih l (by omega) h.1, ih r (by omega) h.2⟩
    case kw k n0 l r => exact ⟨ih l (by omega) h.1, ih r (by omega) h.2⟩
    case between n0 b f t => exact ⟨ih b (by omega) h.1.1, ih f (by omega) h.1.2, ih t (by omega) h.2⟩
    case compare o l r => exact ⟨ih l (by omega) h.1, ih r (by omega) h.2⟩
    case not_ y => exact ih y (by omega) h
    case and_ l r => exact ⟨ih l (by omega) h.1, ih r (by omega) h.2⟩
    case xor l r => exact ⟨ih l (by omega) h.1, ih r (by omega) h.2⟩
    case or_ l r => exact ⟨ih l (by omega) h.1, ih r (by omega) h.2⟩

-- non-vacuity (compiled evaluation): the concrete trees of `C02T.lean` satisfy the hypotheses, and the conclusion of the
-- link is what the lexer computes on the printer's text
#guard [C02.e1, C02.e2, C02.e3, C02.e4, C02.e5, C02.e6, C02.e7].all fun e => Frag .MYSQL e && leafB .MYSQL e
#guard [C02.e1, C02.e2, C02.e3, C02.e4, C02.e5, C02.e6].all fun e => Frag .ORACLE e && leafB .ORACLE e
#guard [C02.e1, C02.e2, C02.e3, C02.e4, C02.e5, C02.e6].all fun e =>
  Frag .POSTGRE_SQL e && leafB .POSTGRE_SQL e && Frag .SQL_SERVER e && leafB .SQL_SERVER e && Frag .DEFAULT e && leafB .DEFAULT e
#guard [C02.e1, C02.e2, C02.e3, C02.e4, C02.e5, C02.e6, C02.e7].all fun e => Frag .HIVE e && leafB .HIVE e &&
  (match PR.prE .HIVE e with | .ok s => dialectPre .HIVE s.toList == s.toList | .error _ => false)
#guard [C02.e1, C02.e4, C02.e7].all fun e =>
  (match PR.prE .MYSQL e with | .ok s => s.toList == prEL .MYSQL e && C02.agrees .MYSQL e | .error _ => false)
#guard (match PM.parseText "logical_or_level_expression" .MYSQL (prEL .MYSQL C02.e4) with
  | .ok (v, 0) => Drv.showVal v == Drv.showVal C02.e4.toVal | _ => false)
-- `- -x` gets a blank, `-~x` and `!-x` do not; string payloads with escapes and hostile characters
#guard leafB .MYSQL (.unary "SUBTRACT" (.unary "SUBTRACT" (C02.col "x"))) &&
  prEL .MYSQL (.unary "SUBTRACT" (.unary "SUBTRACT" (C02.col "x"))) == "- -`x`".toList &&
  prEL .MYSQL (.unary "SUBTRACT" (.unary "BITWISE_INVERSION" (C02.lit "1"))) == "-~1".toList
#guard litLexB "'it''s; -- /* ('" && litLexB "\"a\\\"b\"" && litLexB "007" && litLexB "null" && !litLexB "'abc" && !litLexB "1.5"

/-- an instance of the theorem, hypotheses decided by the kernel -/
example : ∃ s ts, PR.prE .MYSQL C02.e2 = .ok s ∧ Lex.lex Gen.cfgS (dialectPre .MYSQL s.toList) = .ok ts ∧
    pOr .MYSQL (fuelFor ts) ts = .ok (C02.e2, []) ∧ (∀ e', pOr .MYSQL (fuelFor ts) ts = .ok (e', []) → PR.prE .MYSQL e' = .ok s) :=
  expr_round_trip_text .MYSQL C02.e2 (by decide +kernel) (leaf_of_B _ _ _ (Nat.le_refl _) (by decide +kernel))
    (dialectPre_id _ (by decide) (by decide) _)

/-- an instance for HIVE: the pre-pass hypothesis is discharged by `hive_pre` -/
example : ∃ s, PR.prE .HIVE C02.e3 = .ok s ∧ PM.parseText "logical_or_level_expression" .HIVE s.toList = .ok (C02.e3.toVal, 0) :=
  expr_round_trip_entry .HIVE C02.e3 (by decide +kernel) (leaf_of_B _ _ _ (Nat.le_refl _) (by decide +kernel))
    (hive_pre _ (by decide +kernel) (leaf_of_B _ _ _ (Nat.le_refl _) (by decide +kernel))
      (by simp only [C02.e3, C02.col, noEqEq]; decide +kernel))

end C01
