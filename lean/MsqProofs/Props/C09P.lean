import MsqProofs.Lemmas.ParseCase8
import MsqProofs.Props.C09
import MsqProofs.Lemmas.LexLink
/-!
# C09, parser half: the letter case of WORD tokens never changes what the parser does

Built on the generated relational family `MsqProofs/Lemmas/ParseCase*.lean` (`tools/gen_case.py`): for EVERY function `f` of the parser
model (the 80 functions of the mutual block of `Parse/Expr.lean`, the 19 cursor primitives / helpers, the 57 functions of
`Parse/Stmt.lean` and `pStatements`, `pSubValue` of `Parse/Entry.lean`: 158 in all; three fuel steps — `pSplit`, `pSelectStmt`, `pUnions` — by hand
in `Lemmas/ParseCase7.lean`) a lemma `f_ce : args ~ args' → f args ≈ f args'`.

* `PM.CE t t'` / `PM.CEL ts ts'` (`Lemmas/ParseCase1.lean`): the two tokens (token lists) differ at most in the LETTER CASE OF WORDS — same
  shape, same marks, and a leaf is literally the same or both leaves are case words (`caseWord`: ASCII letters, digits, `_`, at least one
  letter: no quote, no back-quote, no dot, no operator character) with the same `str.upper()`.
* `PM.upSt0` … (`Lemmas/ParseCase0.lean`, `ParseCase4.lean`): `upAll`, the tree with EVERY stored string mapped through `str.upper()`.
* `≈` is `PM.CEX (ceq (List.map upSt0))`: both runs fail with the SAME error kind, or both succeed with trees whose `upAll` are equal
  (same statement kinds, same clause slots, same shape, every stored text equal up to letter case).

## What is proved here
* `C09.parse_case_invariant` (+ `_accept`, `_reject`, `_kinds`, `_loop`, `_statement`): `parse_statements` on case-equivalent token lists.
* `C09.entries_case_invariant`, `entries2_case_invariant`, `entriesAll_case_invariant`: EVERY public entry point (`PM.entries` 58 + `PM.entries2`
  26 = 84): same accept / reject, same error kind, case-equivalent remaining
  cursors (hence the same number of unconsumed tokens) — the typed `≈` form for each entry is the lemma `PM.<function>_ce` it wraps.
* text level: `C09.parse_case_invariant_text`, `C09.parseText_case_invariant` (the entry points on text, with the fuel they compute
  themselves: `fuelFor` does not depend on letter case, `cel_sizeL`), composed with the lexer half through `C09.keyword_variants_ce`
  (every one of the 1292 letter-case variants of the 27 keyword-table entries lexes to a token `CE`-related to the upper-case one) and
  `C09.word_recase` (any word not beginning with `b B x X`, in any delimiter context: `LexLink.lx_word` + `wordMark_upper`).

## What the `≈` form leaves open (the sharp form)
`≈` does not say WHICH stored texts may differ.  The sharp statement "if the differing tokens are keywords in keyword position the trees
are EQUAL" needs an instrumented parser (which tokens end up in the tree is a property of the parse, not of the token: `SELECT a AS select`
stores a keyword) and is NOT proved in general.  What is known:
* literal equality holds on the T-query fragment for the ONE spelling the printer emits (`C03.tquery`) and for the operator / noise-word
  spellings of `C09.tquery_spellings`; the letter case of the keyword tokens of `toksQ` is not among the spelling choices there;
* words that ARE stored with their letter case although a reader would call them keywords (each checked on the real code, see the
  `#guard`s at the end and the final report): the literal words `NULL` / `TRUE` / `FALSE`, function names (`COUNT`; the type of a CAST is
  normalised to the enum member, function names are not), `USING` of a join (F-C09-2: parsed as a function call), `CURRENT_DATE` (a
  column name), column type names of CREATE TABLE (`a int` / `a INT`), option values (`ENGINE = innodb`), `CHARACTER SET` / `COLLATE` names;
* `same_upAll_same_tree`: if neither tree stores a lower-case letter (`upAll` fixes both) the trees are EQUAL.

## Case-SENSITIVE comparisons with a literal that contains letters
None at token level: every generated proof went through with the case-insensitive facts (`up src`, `equalsStr`, `srcEqUp`, the word
sets) and the case-sensitive ones for the OPERATOR literals `,` `.` `;` `*` `=` `-`, `compareSet`, `unarySet`, `compareHash` only
(`isOpLit`: the literal starts with a character no word contains).  The only case-sensitive site with letters is BEFORE the lexer:
the DB2 pre-pass `CURRENT DATE` → `CURRENT_DATE` (`parser.py:91-95`, whole-text `str.replace`; finding F-C09-1), which is why the
text-level theorems take the token lists of the PRE-PASSED texts as their hypothesis.
-/
set_option linter.unusedVariables false
set_option linter.unusedSimpArgs false
open Lex PM Ast

namespace C09

/-! ## token level: `parse_statements` -/

/-- **C09.parse_case_invariant**: `parse_statements` on two token lists that differ only in the letter case of words: the same error
kind, or two statement lists that are equal after `upAll`; every dialect, every fuel. -/
theorem parse_case_invariant (d : Gen.D) (f : Nat) (ts ts' : List Tok) (h : CEL ts ts') :
    CEX (ceq (List.map upSt0)) (pStatements d f ts) (pStatements d f ts') := pStatements_ce d f ts ts' h

/-- the loop of `parse_statements` from any accumulator -/
theorem parse_case_invariant_loop (d : Gen.D) (f g : Nat) (acc acc' : List Stmt) (ts ts' : List Tok)
    (ha : acc.map upSt0 = acc'.map upSt0) (h : CEL ts ts') :
    CEX (ceq (List.map upSt0)) (statementsLoop d f g acc ts) (statementsLoop d f g acc' ts') :=
  statementsLoop_ce d f g acc ts g acc' ts' rfl ha h

/-- one statement: same error kind, or related statements and case-equivalent remaining cursors -/
theorem parse_case_invariant_statement (d : Gen.D) (f : Nat) (ts ts' : List Tok) (h : CEL ts ts') :
    CER (ceq upSt0) (pStatement d f ts) (pStatement d f ts') := pStatement_ce d f ts ts' h

/-- accepted alike -/
theorem parse_case_invariant_accept (d : Gen.D) (f : Nat) (ts ts' : List Tok) (h : CEL ts ts') (ss : List Stmt)
    (hs : pStatements d f ts = .ok ss) : ∃ ss', pStatements d f ts' = .ok ss' ∧ ss.map upSt0 = ss'.map upSt0 := by
  have := parse_case_invariant d f ts ts' h
  rw [hs] at this
  cases h' : pStatements d f ts' with
  | error e => rw [h'] at this; simp at this
  | ok ss' => rw [h'] at this; exact ⟨ss', rfl, by simpa using this⟩
/-- rejected alike, with the same error kind -/
theorem parse_case_invariant_reject (d : Gen.D) (f : Nat) (ts ts' : List Tok) (h : CEL ts ts') (e : Err)
    (hs : pStatements d f ts = .error e) : pStatements d f ts' = .error e := by
  have := parse_case_invariant d f ts ts' h
  rw [hs] at this
  cases h' : pStatements d f ts' with
  | error e' => rw [h'] at this; simp at this; rw [this]
  | ok ss' => rw [h'] at this; simp at this

/-- the kind of a statement (its constructor) -/
def kind : Stmt → Nat
  | .select _ => 0 | .insertValues _ _ => 1 | .insertSelect _ _ => 2 | .update .. => 3 | .delete .. => 4 | .createTable _ => 5
  | .createTableAs _ _ _ => 6 | .dropTable _ _ => 7 | .set _ => 8 | .analyze .. => 9 | .alter _ _ => 10 | .msck _ => 11 | .use _ => 12
  | .truncate _ => 13 | .showDatabases => 14 | .showTables => 15 | .showColumns _ _ => 16
theorem kind_upSt0 (s : Stmt) : kind (upSt0 s) = kind s := by cases s <;> rfl
/-- the same number of statements, of the same kinds, in the same order -/
theorem parse_case_invariant_kinds (d : Gen.D) (f : Nat) (ts ts' : List Tok) (h : CEL ts ts') (ss ss' : List Stmt)
    (hs : pStatements d f ts = .ok ss) (hs' : pStatements d f ts' = .ok ss') : ss.map kind = ss'.map kind := by
  obtain ⟨ss2, h2, he⟩ := parse_case_invariant_accept d f ts ts' h ss hs
  rw [hs'] at h2; cases h2
  have := congrArg (List.map kind) he
  simpa [List.map_map, Function.comp_def, kind_upSt0] using this

/-- what `≈` leaves open, one half: when neither tree stores a letter that `str.upper()` changes, the trees are EQUAL -/
theorem same_upAll_same_tree (ss ss' : List Stmt) (h : ss.map upSt0 = ss'.map upSt0) (h1 : ss.map upSt0 = ss) (h2 : ss'.map upSt0 = ss') :
    ss = ss' := by rw [← h1, ← h2, h]

/-! ## every entry point of `PM.entries` -/

/-- the outcome of an entry point up to the value: the same error kind, or success with case-equivalent remaining cursors -/
def OutcomeCE (a b : Except Err (Val × List Tok)) : Prop :=
  match a, b with
  | .ok (_, r), .ok (_, r') => CEL r r'
  | .error e, .error e' => e = e'
  | _, _ => False
@[simp, grind =] theorem outcome_ok_ok (v v' : Val) (r r' : List Tok) : OutcomeCE (.ok (v, r)) (.ok (v', r')) = CEL r r' := by simp [OutcomeCE]
@[simp, grind =] theorem outcome_err_err (e e' : Err) : OutcomeCE (.error e) (.error e') = (e = e') := by simp [OutcomeCE]
@[simp, grind =] theorem outcome_ok_err (p : Val × List Tok) (e : Err) : OutcomeCE (.ok p) (.error e) = False := by
  obtain ⟨v, r⟩ := p; simp [OutcomeCE]
@[simp, grind =] theorem outcome_err_ok (p : Val × List Tok) (e : Err) : OutcomeCE (.error e) (.ok p) = False := by
  obtain ⟨v, r⟩ := p; simp [OutcomeCE]

/-- one entry point from the lemma of the function it wraps -/
macro "entry_ce " t:term : tactic =>
  `(tactic| (have hc := $t; (try dsimp only [exprEntry, stmtEntry, mapEntry]); split <;> split <;> simp_all))

/-- **C09.entries_case_invariant**: EVERY entry point `SQLParser.parse_*` of the model (`PM.entries`, 58 of them), on two token lists
that differ only in the letter case of words: accepted / rejected alike, the same error kind, case-equivalent remaining cursors. -/
theorem entries_case_invariant : ∀ e ∈ PM.entries, ∀ (d : Gen.D) (f : Nat) (ts ts' : List Tok), CEL ts ts' →
    OutcomeCE (e.2 d f ts) (e.2 d f ts') := by
  unfold PM.entries
  simp only [List.forall_mem_cons, List.not_mem_nil, false_imp_iff, implies_true, and_true]
  and_intros
  all_goals intro d f ts ts' h
  all_goals try dsimp only [exprEntry, stmtEntry, mapEntry]
  case _ => entry_ce popSrc_ce ts ts' h
  case _ => entry_ce pTblName_ce ts ts' h
  case _ => entry_ce pColumnName_ce ts ts' h
  case _ => entry_ce pFuncName_ce ts ts' h
  case _ => entry_ce pFunc_ce d f ts ts' h
  case _ => entry_ce pFuncIdx_ce d f ts ts' h
  case _ => entry_ce pCast_ce d f ts ts' h
  case _ => entry_ce pExtract_ce d f ts ts' h
  case _ => entry_ce pIfCall_ce d f ts ts' h
  case _ => entry_ce pWindow_ce d f ts ts' h
  case _ => entry_ce pCase_ce d f ts ts' h
  case _ => entry_ce pSubQuery_ce d f ts ts' h
  case _ => entry_ce pSubValue_ce d f ts ts' h
  case _ => entry_ce pElement_ce d f ts ts' h
  case _ => entry_ce pUnary_ce d f ts ts' h
  case _ => entry_ce pCompute_ce d f ts ts' h
  case _ => entry_ce pKeyword_ce d f none ts none ts' rfl h
  case _ => entry_ce pCompare_ce d f ts ts' h
  case _ => entry_ce pNot_ce d f ts ts' h
  case _ => entry_ce pAnd_ce d f ts ts' h
  case _ => entry_ce pXor_ce d f ts ts' h
  case _ => entry_ce pOr_ce d f ts ts' h
  case _ => entry_ce pFromTable_ce d f ts ts' h
  case _ => entry_ce pJoin_ce d f ts ts' h
  case _ => entry_ce pTableExpr_ce d f ts ts' h
  case _ => entry_ce pOptOr_ce d f "WHERE" ts "WHERE" ts' rfl h
  case _ => entry_ce pOrderByOpt_ce d f ts ts' h
  case _ =>
    have hc := pGroupBy_ce d f ts ts' h
    revert hc; generalize pGroupBy d f ts = a; generalize pGroupBy d f ts' = b; intro hc
    match a, b, hc with
    | .ok (x, r), .ok (x', r'), hc => simp at hc; simp [hc.2]
    | .error e, .error e', hc => simp at hc; simp [hc]
    | .ok (_, _), .error _, hc => simp at hc
    | .error _, .ok (_, _), hc => simp at hc
  case _ => entry_ce pLimit_ce ts ts' h
  case _ => entry_ce pWith_ce d f ts ts' h
  case _ => entry_ce pLateral_ce d f ts ts' h
  case _ =>
    have hw := pWith_ce d f ts ts' h
    revert hw; generalize pWith d f ts = a; generalize pWith d f ts' = b; intro hw
    match a, b, hw with
    | .ok (w, r), .ok (w', r'), hw =>
      simp at hw
      have hs := pSingle_ce d f w r w' r' hw.1 hw.2
      revert hs; dsimp only; generalize pSingle d f w r = a2; generalize pSingle d f w' r' = b2; intro hs
      match a2, b2, hs with
      | .ok (x, r), .ok (x', r'), hs => simp at hs; simp [hs.2]
      | .error e, .error e', hs => simp at hs; simp [hs]
      | .ok (_, _), .error _, hs => simp at hs
      | .error _, .ok (_, _), hs => simp at hs
    | .error e, .error e', hw => simp at hw; simp [hw]
    | .ok (_, _), .error _, hw => simp at hw
    | .error _, .ok (_, _), hw => simp at hw
  case _ => entry_ce pSelectStmt_ce d f none ts none ts' rfl h
  case _ => entry_ce pConfigStrExpr_ce ts ts' h
  case _ => entry_ce pColType_ce d f ts ts' h
  case _ => entry_ce pPartition_ce d f false ts false ts' rfl h
  case _ => entry_ce pForeignKey_ce ts ts' h
  case _ => entry_ce pIndexCol_ce ts ts' h
  case _ => entry_ce pPrimaryIndex_ce ts ts' h
  case _ => entry_ce pUniqueIndex_ce ts ts' h
  case _ => entry_ce pNormalIndex_ce ts ts' h
  case _ => entry_ce pFulltextIndex_ce ts ts' h
  case _ => entry_ce pDefCol_ce d f ts ts' h
  case _ => entry_ce pColOrIdx_ce d f ts ts' h
  case _ => entry_ce pAlterExpr_ce d f ts ts' h
  case _ => entry_ce pSet_ce ts ts' h
  case _ => entry_ce pCreateTable_ce d f ts ts' h
  case _ => entry_ce pDropTable_ce ts ts' h
  case _ => entry_ce pAnalyze_ce d f ts ts' h
  case _ => entry_ce pAlter_ce d f ts ts' h
  case _ => entry_ce pMsck_ce ts ts' h
  case _ => entry_ce pUse_ce ts ts' h
  case _ => entry_ce pTruncate_ce ts ts' h
  case _ => entry_ce pUpdate_ce d f none ts none ts' rfl h
  case _ => entry_ce pDelete_ce d f ts ts' h
  case _ => entry_ce pShowColumns_ce d f ts ts' h
  case _ => entry_ce pInsert_ce d f none ts none ts' rfl h
  case _ => entry_ce pStatements_ce d f ts ts' h

/-- the number of entry points covered -/
example : PM.entries.length = 58 := by decide

/-- **C09.entries2_case_invariant**: the same for the other 26 public entry points (`PM.entries2`, `MsqModel/Parse/Entry2.lean`; their
functions: `Lemmas/ParseCase8.lean`) -/
theorem entries2_case_invariant : ∀ e ∈ PM.entries2, ∀ (d : Gen.D) (f : Nat) (ts ts' : List Tok), CEL ts ts' →
    OutcomeCE (e.2 d f ts) (e.2 d f ts') := by
  unfold PM.entries2
  simp only [List.forall_mem_cons, List.not_mem_nil, false_imp_iff, implies_true, and_true]
  and_intros
  all_goals intro d f ts ts' h
  case _ => entry_ce pInsertType_ce ts ts' h
  case _ => entry_ce pJoinType_ce ts ts' h
  case _ => entry_ce pOrderType_ce ts ts' h
  case _ => entry_ce pUnionType_ce ts ts' h
  case _ => entry_ce pCompareOp_ce ts ts' h
  case _ => entry_ce pComputeOp_ce ts ts' h
  case _ => entry_ce pCastDataType_ce ts ts' h
  case _ => entry_ce pRowItem_ce ts ts' h
  case _ => entry_ce pWindowRow_ce ts ts' h
  case _ => entry_ce pWildcard_ce ts ts' h
  case _ => entry_ce pAlias_ce ts ts' h
  case _ => entry_ce pMultiAlias_ce ts ts' h
  case _ => entry_ce pJoinOn_ce d f ts ts' h
  case _ => entry_ce pJoinUsing_ce d f ts ts' h
  case _ => entry_ce pJoinExpr_ce d f ts ts' h
  case _ => entry_ce pSelectCol_ce d f ts ts' h
  case _ => entry_ce pSelectClause_ce d f ts ts' h
  case _ => entry_ce pFromClause_ce d f ts ts' h
  case _ => entry_ce pGroupingSets_ce d f ts ts' h
  case _ => entry_ce pOptOr_ce d f "HAVING" ts "HAVING" ts' rfl h
  case _ => entry_ce pSortBy_ce d f ts ts' h
  case _ => entry_ce pByList_ce d f "DISTRIBUTE" ts "DISTRIBUTE" ts' rfl h
  case _ => entry_ce pByList_ce d f "CLUSTER" ts "CLUSTER" ts' rfl h
  case _ => entry_ce pWithTable_ce d f ts ts' h
  case _ => entry_ce pUpdateSetCol_ce d f ts ts' h
  case _ => entry_ce pUpdateSet_ce d f ts ts' h

/-- **C09.entriesAll_case_invariant**: all 84 public parsing entry points -/
theorem entriesAll_case_invariant : ∀ e ∈ PM.entriesAll, ∀ (d : Gen.D) (f : Nat) (ts ts' : List Tok), CEL ts ts' →
    OutcomeCE (e.2 d f ts) (e.2 d f ts') := by
  intro e he
  simp only [entriesAll, List.mem_append] at he
  rcases he with he | he
  · exact entries_case_invariant e he
  · exact entries2_case_invariant e he
example : PM.entriesAll.length = 84 := by decide

/-! ## text level -/

mutual
theorem ce_size : ∀ t t' : Tok, CE t t' → Tok.size t = Tok.size t'
  | .single _ _, .single _ _, _ => rfl
  | .group _ cs _, .group _ cs' _, h => by simp only [CE] at h; simp only [Tok.size, cel_sizeL cs cs' h.2.2.1]
  | .single _ _, .group _ _ _, h => by simp [CE] at h
  | .group _ _ _, .single _ _, h => by simp [CE] at h
/-- the fuel the entry points compute does not depend on letter case -/
theorem cel_sizeL : ∀ ts ts' : List Tok, CEL ts ts' → sizeL ts = sizeL ts'
  | [], [], _ => rfl
  | t :: ts, t' :: ts', h => by simp only [cel_cons_cons] at h; simp only [sizeL, ce_size t t' h.1, cel_sizeL ts ts' h.2]
  | [], _ :: _, h => by simp at h
  | _ :: _, [], h => by simp at h
end
theorem cel_fuelFor (ts ts' : List Tok) (h : CEL ts ts') : fuelFor ts = fuelFor ts' := by simp [fuelFor, cel_sizeL ts ts' h]

/-- **C09.parse_case_invariant_text**: the model of `SQLParser.parse_statements(text, dialect)` (dialect pre-pass, shipped lexer, the fuel
it computes itself) on two texts whose token lists differ only in the letter case of words: the same error kind, or statement lists
equal after `upAll`. -/
theorem parse_case_invariant_text (d : Gen.D) (text text' : List Char) (ts ts' : List Tok)
    (h1 : lex Gen.cfgS (dialectPre d text) = .ok ts) (h2 : lex Gen.cfgS (dialectPre d text') = .ok ts') (h : CEL ts ts') :
    CEX (ceq (List.map upSt0)) (parseStatementsText d text) (parseStatementsText d text') := by
  simp only [parseStatementsText, h1, h2, cel_fuelFor ts ts' h]
  exact parse_case_invariant d _ ts ts' h

/-- the outcome of a text-level entry point up to the value: the same error kind, or success with the same number of unconsumed tokens -/
def OutcomeTextCE (a b : Except Err (Val × Nat)) : Prop :=
  match a, b with
  | .ok (_, n), .ok (_, n') => n = n'
  | .error e, .error e' => e = e'
  | _, _ => False

/-- **C09.parseText_case_invariant**: EVERY text-level entry point `SQLParser.parse_<entry>(text, dialect)` of the model: accepted /
rejected alike, the same error kind, the same number of unconsumed tokens. -/
theorem parseText_case_invariant (entry : String) (d : Gen.D) (text text' : List Char) (ts ts' : List Tok)
    (h1 : lex Gen.cfgS (dialectPre d text) = .ok ts) (h2 : lex Gen.cfgS (dialectPre d text') = .ok ts') (h : CEL ts ts') :
    OutcomeTextCE (parseText entry d text) (parseText entry d text') := by
  unfold parseText
  cases hf : PM.entries.find? (·.1 == entry) with
  | none => simp [OutcomeTextCE]
  | some e =>
    obtain ⟨n, p⟩ := e
    have hm : (n, p) ∈ PM.entries := List.mem_of_find?_eq_some hf
    have this : OutcomeCE (p d (fuelFor ts) ts) (p d (fuelFor ts) ts') := entries_case_invariant (n, p) hm d (fuelFor ts) ts ts' h
    simp only [h1, h2, ← cel_fuelFor ts ts' h]
    cases ha : p d (fuelFor ts) ts <;> cases hb : p d (fuelFor ts) ts' <;> rw [ha, hb] at this <;> simp_all [OutcomeTextCE]
    exact cel_length this

/-- one entry run on the token lists of two texts -/
theorem run_entry_text (p : Entry) (hp : ∀ (d : Gen.D) (f : Nat) (ts ts' : List Tok), CEL ts ts' → OutcomeCE (p d f ts) (p d f ts'))
    (d : Gen.D) (ts ts' : List Tok) (h : CEL ts ts') :
    OutcomeTextCE (match p d (fuelFor ts) ts with | .ok (v, r) => .ok (v, r.length) | .error e => .error e)
      (match p d (fuelFor ts') ts' with | .ok (v, r) => .ok (v, r.length) | .error e => .error e) := by
  have := hp d (fuelFor ts) ts ts' h
  rw [← cel_fuelFor ts ts' h]
  cases ha : p d (fuelFor ts) ts <;> cases hb : p d (fuelFor ts) ts' <;> rw [ha, hb] at this <;> simp_all [OutcomeTextCE]
  exact cel_length this
/-- **C09.parseText2_case_invariant**: every one of the 84 public entry points `SQLParser.parse_<entry>(text, dialect)` -/
theorem parseText2_case_invariant (entry : String) (d : Gen.D) (text text' : List Char) (ts ts' : List Tok)
    (h1 : lex Gen.cfgS (dialectPre d text) = .ok ts) (h2 : lex Gen.cfgS (dialectPre d text') = .ok ts') (h : CEL ts ts') :
    OutcomeTextCE (parseText2 entry d text) (parseText2 entry d text') := by
  unfold parseText2
  cases hf : PM.entriesAll.find? (·.1 == entry) with
  | none => simp [OutcomeTextCE]
  | some e =>
    obtain ⟨n, p⟩ := e
    simp only [h1, h2]
    exact run_entry_text p (entriesAll_case_invariant (n, p) (List.mem_of_find?_eq_some hf)) d ts ts' h
/-- … and called with a `TokenScanner` (no dialect pre-pass: the hypothesis is on the token lists of the texts themselves) -/
theorem parseScanner2_case_invariant (entry : String) (d : Gen.D) (text text' : List Char) (ts ts' : List Tok)
    (h1 : lex Gen.cfgS text = .ok ts) (h2 : lex Gen.cfgS text' = .ok ts') (h : CEL ts ts') :
    OutcomeTextCE (parseScanner2 entry d text) (parseScanner2 entry d text') := by
  unfold parseScanner2
  cases hf : PM.entriesAll.find? (·.1 == entry) with
  | none => simp [OutcomeTextCE]
  | some e =>
    obtain ⟨n, p⟩ := e
    simp only [h1, h2]
    exact run_entry_text p (entriesAll_case_invariant (n, p) (List.mem_of_find?_eq_some hf)) d ts ts' h

/-! ## the link to the lexer half (`C09.keyword_case`) -/

/-- two words that differ in letter case only (decidable form) -/
def ceWordB (s s' : List Char) : Bool := caseWord s && caseWord s' && Gen.pyUpper s == Gen.pyUpper s'
theorem ce_of_ceWordB (s s' : List Char) (m : Nat) (h : ceWordB s s' = true) : CE (.single s m) (.single s' m) := by
  simp only [ceWordB, Bool.and_eq_true, beq_iff_eq] at h
  simp only [CE, true_and]
  exact .inr ⟨h.1.1, h.1.2, h.2⟩
/-- every letter-case variant of every keyword-table entry is a case word with the same `str.upper()` as the entry … -/
theorem keyword_variants_caseWord : (Gen.wordMarks.all fun e => (C05.caseVariants e.1.toList).all fun v => ceWordB e.1.toList v) = true := by
  decide +kernel
/-- … so, by `C09.keyword_case` (the variant alone lexes to ONE token with the entry's marks), its token is `CE`-related to the token of the
upper-case spelling: the hypothesis `CEL ts ts'` of the theorems above is what the lexer half delivers for keyword case. -/
theorem keyword_variants_ce (e : String × Nat) (he : e ∈ Gen.wordMarks) (v : List Char) (hv : v ∈ C05.caseVariants e.1.toList) :
    CEL [.single e.1.toList e.2] [.single v e.2] ∧ lexesTo (lex Gen.cfgS v) [.single v e.2] = true := by
  have h1 := keyword_variants_caseWord
  have h2 := keyword_case
  simp only [List.all_eq_true] at h1 h2
  have h2' := h2 e he
  simp only [caseOK, List.all_eq_true, Bool.and_eq_true] at h2'
  exact ⟨by simp [ce_of_ceWordB _ _ _ (h1 e he v hv)], (h2' v hv).2⟩

/-- **C09.word_recase**: ANY word, not only the 27 keywords (`isWord`: it does not begin with a digit or with `b B x X`, the prefixes of
bit / hex literals), in two letter cases: in every delimiter context (`LexLink.Lx`: after any text that leaves the lexer between tokens,
before a blank, `)`, `,`, line break or the end) each spelling lexes to ONE token, and the two tokens are `CE`-related (same marks by
`wordMark_upper`) — so re-casing such a word in a text changes the token list within `CEL`, position by position. -/
theorem word_recase (v w : List Char) (hv : C05.isWord v = true) (hw : C05.isWord w = true) (cv : caseWord v = true) (cw : caseWord w = true)
    (hu : Gen.pyUpper v = Gen.pyUpper w) :
    LexLink.Lx v [.single v (C05.wordMark v)] ∧ LexLink.Lx w [.single w (C05.wordMark w)] ∧
      CE (.single v (C05.wordMark v)) (.single w (C05.wordMark w)) := by
  refine ⟨LexLink.lx_word v hv, LexLink.lx_word w hw, ?_⟩
  have : C05.wordMark v = C05.wordMark w := wordMark_upper v w hu
  rw [this]; simp only [CE, true_and]; exact .inr ⟨cv, cw, hu⟩
example : C05.isWord "wHeRe".toList = true ∧ C05.isWord "WHERE".toList = true ∧ caseWord "wHeRe".toList = true ∧ caseWord "WHERE".toList = true ∧
    Gen.pyUpper "wHeRe".toList = Gen.pyUpper "WHERE".toList := by decide +kernel

/-! ## non-vacuity (tests: `String` functions do not reduce in the kernel, so these are evaluated `#guard`s) -/

/-! decidable mirror of `CE` / `CEL` for the tests -/
mutual
def ceB : Tok → Tok → Bool
  | .single s m, .single s' m' => m == m' && (s == s' || ceWordB s s')
  | .group k cs m, .group k' cs' m' => k == k' && m == m' && celB cs cs' && (m &&& NAME == 0 || eqbL cs cs')
  | _, _ => false
def celB : List Tok → List Tok → Bool
  | [], [] => true
  | t :: ts, t' :: ts' => ceB t t' && celB ts ts'
  | _, _ => false
end

def lexS (s : String) : List Tok := match lex Gen.cfgS s.toList with | .ok ts => ts | .error _ => []
/-- both texts lex, to case-equivalent token lists that are NOT equal, and `parse_statements` returns statement lists that are equal after
`upAll` (compared through the canonical dump) -/
def pairOK (d : Gen.D) (a b : String) : Bool :=
  let ta := lexS a; let tb := lexS b
  !ta.isEmpty && celB ta tb && !(eqbL ta tb) &&
  match pStatements d (fuelFor ta) ta, pStatements d (fuelFor tb) tb with
  | .ok x, .ok y => !x.isEmpty && toString (repr ((x.map upSt0).map Stmt.toVal)) == toString (repr ((y.map upSt0).map Stmt.toVal))
  | _, _ => false
/-- the same, and the two trees are literally EQUAL (only words the parser does not store differ) -/
def pairEQ (d : Gen.D) (a b : String) : Bool :=
  pairOK d a b &&
  match pStatements d (fuelFor (lexS a)) (lexS a), pStatements d (fuelFor (lexS b)) (lexS b) with
  | .ok x, .ok y => toString (repr (x.map Stmt.toVal)) == toString (repr (y.map Stmt.toVal))
  | _, _ => false
/-- both rejected with the same error kind -/
def pairERR (d : Gen.D) (a b : String) : Bool :=
  let ta := lexS a; let tb := lexS b
  celB ta tb && !(eqbL ta tb) &&
  match pStatements d (fuelFor ta) ta, pStatements d (fuelFor tb) tb with
  | .error x, .error y => x.show == y.show
  | _, _ => false

#guard pairEQ .MYSQL "SELECT a FROM t WHERE b IS NOT NULL" "select a from t where b is not NULL"
#guard pairEQ .MYSQL "SELECT a FROM t WHERE b IS NOT NULL" "sElEcT a FrOm t wHeRe b iS nOt NULL"
#guard pairOK .MYSQL "SELECT a FROM t WHERE b IS NOT NULL" "select A from T where B is not null"
#guard !pairEQ .MYSQL "SELECT a FROM t WHERE b IS NOT NULL" "select a from t where b is not null"     -- the literal `NULL` is stored
#guard pairEQ .HIVE "SELECT a, b FROM t x LEFT JOIN u y ON x.a = y.a WHERE a BETWEEN 1 AND 2 GROUP BY a HAVING a > 1 ORDER BY a DESC LIMIT 3"
                    "select a, b from t x left join u y on x.a = y.a where a between 1 and 2 group by a having a > 1 order by a desc limit 3"
#guard pairEQ .MYSQL "SELECT a FROM t UNION ALL SELECT b FROM u" "select a from t union all select b from u"
#guard pairEQ .MYSQL "SELECT CASE WHEN a THEN 1 ELSE 2 END, CAST(a AS INT), a DIV b FROM t" "select case when a then 1 else 2 end, cast(a as int), a div b from t"
#guard pairEQ .MYSQL "WITH w AS (SELECT a FROM t) SELECT a FROM w" "with w as (select a from t) select a from w"
#guard pairEQ .MYSQL "INSERT INTO t (a, b) VALUES (1, 2)" "insert into t (a, b) values (1, 2)"
#guard pairEQ .HIVE "INSERT OVERWRITE TABLE t PARTITION (a = 1) SELECT 1" "insert overwrite table t partition (a = 1) select 1"
#guard pairEQ .MYSQL "UPDATE t SET a = 1 WHERE b = 2" "update t set a = 1 where b = 2"
#guard pairEQ .MYSQL "DELETE FROM t WHERE a = 1" "delete from t where a = 1"
#guard pairEQ .MYSQL "CREATE TABLE IF NOT EXISTS t (a INT NOT NULL COMMENT 'x', PRIMARY KEY (a)) COMMENT = 'y'"
                     "create table if not exists t (a INT not null comment 'x', primary key (a)) comment = 'y'"
#guard pairOK .MYSQL "CREATE TABLE t (a INT) ENGINE = InnoDB" "create table t (a int) engine = innodb"              -- type name, option value: stored
#guard pairEQ .MYSQL "DROP TABLE IF EXISTS t" "drop table if exists t"
#guard pairEQ .MYSQL "ALTER TABLE t ADD a INT, DROP COLUMN b" "alter table t add a INT, drop column b"
#guard pairEQ .MYSQL "TRUNCATE TABLE t" "truncate table t"
#guard pairEQ .MYSQL "USE db" "use db"
#guard pairEQ .MYSQL "SHOW TABLES" "show tables"
#guard pairEQ .MYSQL "SELECT a FROM t; SELECT b FROM u" "select a from t; select b from u"
#guard pairOK .MYSQL "SELECT COUNT(DISTINCT a), TRUE FROM t" "select count(distinct a), true from t"               -- function name, literal: stored
#guard pairOK .MYSQL "SELECT a FROM t x JOIN u y USING(a)" "SELECT a FROM t x JOIN u y using(a)"                   -- F-C09-2
#guard !pairEQ .MYSQL "SELECT a FROM t x JOIN u y USING(a)" "SELECT a FROM t x JOIN u y using(a)"
#guard pairERR .MYSQL "SELECT a FROM WHERE" "select a from where"
#guard pairERR .MYSQL "SELECT a FROM t WHERE" "select a from t where"

end C09
