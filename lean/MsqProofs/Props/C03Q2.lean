import MsqProofs.Lemmas.TQuery2M
import MsqModel.Driver.ShowVal
/-!
# C03 / C02 / C01 — T-parse on the LARGER nested fragment: CAST / EXTRACT / IF / array index / window functions; JOIN … USING,
GROUPING SETS / WITH CUBE / WITH ROLLUP, NULLS FIRST / LAST, SORT / DISTRIBUTE / CLUSTER BY, LATERAL VIEW

Built NEXT to Props/C03Q.lean (namespace `TQ`, unchanged).  **Fragment** (mutually recursive `Bool`s, Lemmas/TQuery2_0.lean; any size, any
nesting depth):
* `TQ2.FragE4 d e` — everything of `TQ.FragE3` (operators, predicates, calls, CASE, the three sub-query positions) and in addition
  - `IF(a, …)` (`ifOK`: the tree stores the name `IF`);
  - `CAST(e AS [SIGNED] type [(p, …)])`, `type` any member of the regenerated table `Gen.castTypes` (`all_cast_types_ok`), parameters
    non-negative integers (also the empty list `()`), `e` any fragment expression (printed at bound 8);
  - `EXTRACT(n FROM e)`, `n` and `e` any fragment expressions;
  - `a[i]` with `a` a column, a qualified column or a plain call `f(…)`, `i` any fragment expression (the printer prints it for HIVE only;
    the parser reads it in every dialect);
  - window functions `fn OVER ([PARTITION BY e, …] [ORDER BY item, …] [ROWS BETWEEN a AND b])` with `fn` a plain call `f(…)` or an aggregate
    call `AGG([DISTINCT] …)`, order items with `DESC` / `NULLS FIRST` / `NULLS LAST`, frame bounds `CURRENT ROW`, `UNBOUNDED PRECEDING |
    FOLLOWING`, `n PRECEDING | FOLLOWING` (`n ≥ 0`, also 0).
* `TQ2.FragS4 d s` — a single SELECT with, in addition to `TQ.FragS3`: `JOIN t USING (…)` (the rule is read as a CALL; the tree keeps the
  spelling of the word, F-C09-2), `LATERAL VIEW [OUTER] f(…) v AS a, b, …` (any number, between FROM and the JOINs),
  `GROUP BY [keys] [GROUPING SETS (set, …)] [WITH CUBE] [WITH ROLLUP]` (sets: `()`, a bare element, `(e)` doubly bracketed when its
  rendering starts with a bracket, `(e₁, …, eₙ)`), order items with `NULLS FIRST` / `NULLS LAST` (not both), and after ORDER BY the Hive
  clauses `SORT BY items`, `DISTRIBUTE BY e, …`, `CLUSTER BY e, …` (the printer prints them for HIVE only; the parser reads them in every
  dialect).
* `TQ2.FragQ2 d q` — single SELECT or set-operation chain, as `TQ.FragQ`.
Not covered: WITH clauses (done over the old fragment by the DML development: `TQ.query_ws`, Lemmas/TDml3.lean), window functions over
schema-qualified calls / CAST / IF, `LIMIT n OFFSET m` as an input spelling (the printer never prints it; `C03.limit_offset` in Props/C03.lean
is the slot theorem), an index applied to CAST / EXTRACT / aggregate calls, bracketed SELECTs as branches of a set operation.

**Theorems** (every dialect; `rest` with `TQ2.stopsQ2 d rest`, implied by `TQ.stopsQ d rest`: `TQ2.stopsQ2_of_stopsQ`):
`C03.tquery2`, `tquery2_ch`, `tquery2_entry_fuel`, `tquery2_statement`, `C02.tparse4`, `C01.query_round_trip_tokens2`,
`C03.rendering_determines_query2`, slot corollaries `C02.window_slots`, `C02.cast_slots`, `C02.extract_slots`, `C02.index_slots`,
`C03.grouping_sets_slots`, `C03.using_slot`, `C03.lateral_view_slots`, `C03.hive_clause_slots`.
-/
set_option linter.unusedVariables false
set_option linter.unusedSimpArgs false
open Lex PM Ast TP TS TQ2

namespace TQ2
/-- every member of the regenerated tables satisfies the side conditions of the fragment, in every dialect -/
theorem all_union_types_ok4 : Gen.allD.all (fun d => Gen.unionTypes.all (fun e => unionTyOK4 d e.1)) = true := by decide
theorem all_join_types_ok4 : Gen.allD.all (fun d => Gen.joinTypes.all (fun e => joinTyOK4 d e.1)) = true := by decide
theorem all_cast_types_ok : Gen.castTypes.all (fun e => castTyOK e.1) = true := by decide

/-! ### the continuation condition of the old development implies the new one -/
theorem rank_lt (u : String) (h : 7 < TS.rank u) : 11 < rank4 u := by
  unfold TS.rank at h
  unfold rank4
  repeat' split at h
  all_goals first | omega | skip
  all_goals simp_all
theorem bd4_of_bd {d : Gen.D} {rest : List Tok} (h : TQ.Bd3 d 7 rest = true) : Bd4 d 11 rest = true := by
  cases rest with
  | nil => rfl
  | cons t r =>
    simp only [TQ.Bd3, Bool.and_eq_true, Bool.not_eq_true', headIsOver] at h
    obtain ⟨hb, ho⟩ := h
    obtain ⟨h1, h2, h3, h4⟩ := TS.bd_parts hb
    have h5 := rank_lt _ h4
    simp only [Bd4, bdTok4, Bool.and_eq_true, Bool.or_eq_true, Bool.not_eq_true', decide_eq_true_eq]
    refine ⟨⟨⟨⟨h1, ?_⟩, h3⟩, h5⟩, ho⟩
    rcases h2 with h | h
    · left; exact h
    · right; simp [h]
/-- whatever may follow a query of the old development (`TQ.stopsQ`) may follow a query of the larger fragment -/
theorem stopsQ2_of_stopsQ {d : Gen.D} {rest : List Tok} (h : TQ.stopsQ d rest = true) : stopsQ2 d rest = true := by
  simp only [TQ.stopsQ, Bool.and_eq_true] at h
  simp only [stopsQ2, Bool.and_eq_true]
  exact ⟨bd4_of_bd h.1, h.2⟩

/-- `_parse_select_statement` with the WITH slot already consumed (as `pStatement` calls it) -/
theorem stmt_some {d : Gen.D} {ch : Expr → Bool} (hch : ChOK d ch) (q : Query) (hq : FragQ2 d q = true) (rest : List Tok) (hr : stopsQ2 d rest = true) :
    OkAt (fun f => pSelectStmt d f (some []) (toksQ2 d ch q ++ rest)) (20 * sizeL (toksQ2 d ch q) + 9) (q, rest) := by
  cases q with
  | single s =>
    simp only [FragQ2] at hq
    have := stmt_core (some []) (Or.inr rfl) s [] (srec_of hch s hq) trivial rest hr
    simpa [toksQ2, toksUn2] using this
  | union ws s us =>
    cases ws with
    | none => simp [FragQ2] at hq
    | some l =>
      cases l with
      | cons _ _ => simp [FragQ2] at hq
      | nil =>
        simp only [FragQ2, Bool.and_eq_true, Bool.not_eq_true', Bool.true_and] at hq
        have := stmt_core (some []) (Or.inr rfl) s us (srec_of hch s hq.1.1) (unrec_of hch us hq.1.2) rest hr
        simpa [toksQ2, hq.2] using this
theorem toksQ2_head {d : Gen.D} {ch : Expr → Bool} (hch : ChOK d ch) (q : Query) (hq : FragQ2 d q = true) : ∃ x, toksQ2 d ch q = opTok "SELECT" :: x :=
  (qt hch q hq).head

/-- the slots the corollaries speak about (`TS.groupOf`, `TS.joinsOf`, `TS.orderOf` are those of Props/C03T.lean) -/
def firstSelect : Query → Select
  | .single s => s
  | .union _ s _ => s
def lateralsOf : Select → List Lateral | .mk _ _ _ _ lats _ _ _ _ _ _ _ _ _ => lats
def hiveOf : Select → Option (List OrderItem) × Option (List Expr) × Option (List Expr) | .mk _ _ _ _ _ _ _ _ _ _ sb db cb _ => (sb, db, cb)
end TQ2

namespace C03
/-- **T-parse, queries of the larger fragment.**  Parsing the token rendering of a fragment query returns exactly that tree, in front
of every continuation that continues neither a SELECT nor a set operation, at every fuel above an explicit linear bound -/
theorem tquery2 (d : Gen.D) (q : Query) (hq : FragQ2 d q = true) (rest : List Tok) (hr : stopsQ2 d rest = true)
    (fuel : Nat) (hfuel : 20 * sizeL (toksQ2 d noX q) + 9 ≤ fuel) : pSelectStmt d fuel none (toksQ2 d noX q ++ rest) = .ok (q, rest) :=
  (qt chOK_noX q hq).parse rest hr fuel hfuel
/-- the same for any choice of redundant brackets around sub-expressions that keeps the two first-word side conditions -/
theorem tquery2_ch (d : Gen.D) (ch : Expr → Bool) (hch : ChOK d ch) (q : Query) (hq : FragQ2 d q = true) (rest : List Tok) (hr : stopsQ2 d rest = true)
    (fuel : Nat) (hfuel : 20 * sizeL (toksQ2 d ch q) + 9 ≤ fuel) : pSelectStmt d fuel none (toksQ2 d ch q ++ rest) = .ok (q, rest) :=
  (qt hch q hq).parse rest hr fuel hfuel
/-- the fuel the public entry points compute from the token list dominates the bound -/
theorem tquery2_entry_fuel (d : Gen.D) (q : Query) (hq : FragQ2 d q = true) (rest : List Tok) (hr : stopsQ2 d rest = true) :
    pSelectStmt d (fuelFor (toksQ2 d noX q ++ rest)) none (toksQ2 d noX q ++ rest) = .ok (q, rest) :=
  tquery2 d q hq rest hr _ (by simp only [fuelFor, sizeL_append]; omega)
/-- in front of the continuations of the old development -/
theorem tquery2_stopsQ (d : Gen.D) (q : Query) (hq : FragQ2 d q = true) (rest : List Tok) (hr : TQ.stopsQ d rest = true)
    (fuel : Nat) (hfuel : 20 * sizeL (toksQ2 d noX q) + 9 ≤ fuel) : pSelectStmt d fuel none (toksQ2 d noX q ++ rest) = .ok (q, rest) :=
  tquery2 d q hq rest (stopsQ2_of_stopsQ hr) fuel hfuel

/-- **the same through the statement level**: one iteration of the loop of `parse_statements` (before the optional `;`) -/
theorem tquery2_statement (d : Gen.D) (q : Query) (hq : FragQ2 d q = true) (rest : List Tok) (hr : stopsQ2 d rest = true)
    (fuel : Nat) (hfuel : 20 * sizeL (toksQ2 d noX q) + 9 ≤ fuel) :
    pStatement d fuel (toksQ2 d noX q ++ rest) = .ok (.select q, rest) := by
  obtain ⟨x, hx⟩ := toksQ2_head chOK_noX q hq
  obtain ⟨g, rfl⟩ : ∃ g, fuel = g + 1 := ⟨fuel - 1, by omega⟩
  have hsel := stmt_some chOK_noX q hq rest hr (g + 1) (by omega)
  rw [hx] at hsel ⊢
  simp only [List.cons_append] at hsel ⊢
  have k : ∀ w : String, w ≠ "SELECT" → (opTok "SELECT").srcEqUp w = false := by
    intro w hw
    have : up (opTok "SELECT").src = "SELECT" := by decide
    simp only [Tok.srcEqUp, this, beq_eq_false_iff_ne, ne_eq]
    exact fun h => hw h.symm
  have s1 : ∀ w : String, w ≠ "SELECT" → searchStrUp (opTok "SELECT" :: (x ++ rest)) w = false := by
    intro w hw; simpa [searchStrUp] using k w hw
  have s2 : ∀ a b : String, a ≠ "SELECT" → searchTwoUp (opTok "SELECT" :: (x ++ rest)) a b = false := by
    intro a b ha
    cases hxr : x ++ rest <;> simp [searchTwoUp, hxr, k a ha]
  have s3 : ∀ a b c : String, a ≠ "SELECT" → searchThreeUp (opTok "SELECT" :: (x ++ rest)) a b c = false := by
    intro a b c ha
    rcases hxr : x ++ rest with _ | ⟨y, _ | ⟨z, r⟩⟩ <;> simp [searchThreeUp, hxr, k a ha]
  have sS : searchStrUp (opTok "SELECT" :: (x ++ rest)) "SELECT" = true := by
    have : (opTok "SELECT").srcEqUp "SELECT" = true := by decide
    simpa [searchStrUp] using this
  have hw := with_absent (d := d) (x ++ rest) g
  unfold pStatement
  simp only [s1 "SET" (by decide), s2 "DELETE" "FROM" (by decide), s2 "DROP" "TABLE" (by decide), s2 "CREATE" "TABLE" (by decide),
    s2 "ANALYZE" "TABLE" (by decide), s2 "ALTER" "TABLE" (by decide), s3 "MSCK" "REPAIR" "TABLE" (by decide), s1 "USE" (by decide),
    s2 "TRUNCATE" "TABLE" (by decide), s2 "SHOW" "DATABASES" (by decide), s2 "SHOW" "TABLES" (by decide), s2 "SHOW" "COLUMNS" (by decide),
    Bool.false_eq_true, if_false, hw, sS, if_true, hsel]

/-- equal renderings, equal trees -/
theorem rendering_determines_query2 (d : Gen.D) (q q' : Query) (hq : FragQ2 d q = true) (hq' : FragQ2 d q' = true)
    (h : toksQ2 d noX q = toksQ2 d noX q') : q = q' := by
  have a := tquery2 d q hq [] rfl (20 * sizeL (toksQ2 d noX q) + 9) (Nat.le_refl _)
  have b := tquery2 d q' hq' [] rfl (20 * sizeL (toksQ2 d noX q) + 9) (by rw [h]; exact Nat.le_refl _)
  rw [← h, a] at b
  simp only [Except.ok.injEq, Prod.mk.injEq, and_true] at b
  exact b

/-- **clause slots.**  The parse of the rendering of a fragment query has the GROUP BY slot of the query: keys, grouping sets (each set
with its elements in order), the CUBE and ROLLUP flags -/
theorem grouping_sets_slots (d : Gen.D) (q : Query) (hq : FragQ2 d q = true) (rest : List Tok) (hr : stopsQ2 d rest = true)
    (fuel : Nat) (hfuel : 20 * sizeL (toksQ2 d noX q) + 9 ≤ fuel) :
    ∃ p, pSelectStmt d fuel none (toksQ2 d noX q ++ rest) = .ok (p, rest) ∧ groupOf (firstSelect p) = groupOf (firstSelect q) :=
  ⟨q, tquery2 d q hq rest hr fuel hfuel, rfl⟩
/-- the JOIN slots, in particular the USING rule with its columns -/
theorem using_slot (d : Gen.D) (q : Query) (hq : FragQ2 d q = true) (rest : List Tok) (hr : stopsQ2 d rest = true)
    (fuel : Nat) (hfuel : 20 * sizeL (toksQ2 d noX q) + 9 ≤ fuel) :
    ∃ p, pSelectStmt d fuel none (toksQ2 d noX q ++ rest) = .ok (p, rest) ∧ joinsOf (firstSelect p) = joinsOf (firstSelect q) :=
  ⟨q, tquery2 d q hq rest hr fuel hfuel, rfl⟩
/-- the LATERAL VIEW slots: OUTER flag, generator call, view name, column aliases in order -/
theorem lateral_view_slots (d : Gen.D) (q : Query) (hq : FragQ2 d q = true) (rest : List Tok) (hr : stopsQ2 d rest = true)
    (fuel : Nat) (hfuel : 20 * sizeL (toksQ2 d noX q) + 9 ≤ fuel) :
    ∃ p, pSelectStmt d fuel none (toksQ2 d noX q ++ rest) = .ok (p, rest) ∧ lateralsOf (firstSelect p) = lateralsOf (firstSelect q) :=
  ⟨q, tquery2 d q hq rest hr fuel hfuel, rfl⟩
/-- SORT BY / DISTRIBUTE BY / CLUSTER BY, and ORDER BY with its NULLS flags -/
theorem hive_clause_slots (d : Gen.D) (q : Query) (hq : FragQ2 d q = true) (rest : List Tok) (hr : stopsQ2 d rest = true)
    (fuel : Nat) (hfuel : 20 * sizeL (toksQ2 d noX q) + 9 ≤ fuel) :
    ∃ p, pSelectStmt d fuel none (toksQ2 d noX q ++ rest) = .ok (p, rest) ∧ hiveOf (firstSelect p) = hiveOf (firstSelect q) ∧
      orderOf (firstSelect p) = orderOf (firstSelect q) :=
  ⟨q, tquery2 d q hq rest hr fuel hfuel, rfl, rfl⟩
/-- the JOIN … USING rule spelled out: `SELECT items FROM t JOIN u USING (a, …)` parses to the join whose rule is the call -/
theorem using_rule (d : Gen.D) (cols : List (Expr × Option String)) (t u : FromTable) (ty n : String) (ps : List Expr)
    (hs : FragS4 d (.mk (some []) false cols (some [t]) [] [.mk ty u (some (.using (.func none n ps)))] none none none none none none none none) = true)
    (rest : List Tok) (hr : stopsQ2 d rest = true) (fuel : Nat)
    (hfuel : 20 * sizeL (opTok "SELECT" :: (toksCols4 d noX cols ++ opTok "FROM" :: (toksTable4 d noX t ++ (joinWords ty ++ (toksTable4 d noX u ++
      [TP2.qTok n, grp (toksArgs4 d noX 14 ps)]))))) + 9 ≤ fuel) :
    pSelectStmt d fuel none (opTok "SELECT" :: (toksCols4 d noX cols ++ opTok "FROM" :: (toksTable4 d noX t ++ (joinWords ty ++ (toksTable4 d noX u ++
      (TP2.qTok n :: grp (toksArgs4 d noX 14 ps) :: rest)))))) =
      .ok (.single (.mk (some []) false cols (some [t]) [] [.mk ty u (some (.using (.func none n ps)))] none none none none none none none none), rest) := by
  have e : toksQ2 d noX (.single (.mk (some []) false cols (some [t]) [] [.mk ty u (some (.using (.func none n ps)))] none none none none none none none none)) =
      opTok "SELECT" :: (toksCols4 d noX cols ++ opTok "FROM" :: (toksTable4 d noX t ++ (joinWords ty ++ (toksTable4 d noX u ++
        [TP2.qTok n, grp (toksArgs4 d noX 14 ps)])))) := by
    simp [toksQ2, toksS4, toksFrom4, toksTablesTail4, toksLats4, toksJoins4, toksJoin4, toksRule4, toksE4, toksOptE4, toksGroup4, toksOrder4,
      toksSort4, toksBy4, toksLimit]
  have := tquery2 d (.single (.mk (some []) false cols (some [t]) [] [.mk ty u (some (.using (.func none n ps)))] none none none none none none none none))
    (by simpa [FragQ2] using hs) rest hr fuel (by rw [e]; exact hfuel)
  rw [e] at this
  simpa using this
end C03

namespace C02
/-- **T-parse, expressions of the larger fragment** (the expression half of the mutual induction) -/
theorem tparse4 (d : Gen.D) (e : Expr) (hf : FragE4 d e = true) (rest : List Tok) (hr : TP2.stops2 d rest = true)
    (fuel : Nat) (hfuel : 20 * sizeL (toksE4 d noX e) + 15 ≤ fuel) : pOr d fuel (toksE4 d noX e ++ rest) = .ok (e, rest) :=
  (rt4 chOK_noX e hf).own.s14 rest hr fuel hfuel
/-- window functions: the function, the PARTITION BY keys, the ORDER BY items and the frame land in their slots -/
theorem window_slots (d : Gen.D) (fn : Expr) (part : List Expr) (ord : List OrderItem) (rows : Option (RowItem × RowItem))
    (hf : FragE4 d (.window fn part ord rows) = true) (rest : List Tok) (hr : TP2.stops2 d rest = true) (fuel : Nat)
    (hfuel : 20 * sizeL (toksE4 d noX fn ++ [opTok "OVER", grp (((if part.isEmpty then [] else [opTok "PARTITION", opTok "BY"]) ++ toksArgs4 d noX 8 part) ++
      (((if ord.isEmpty then [] else [opTok "ORDER", opTok "BY"]) ++ toksOrdList4 d noX ord) ++ toksRows rows))]) + 15 ≤ fuel) :
    pOr d fuel (toksE4 d noX fn ++ (opTok "OVER" :: grp (((if part.isEmpty then [] else [opTok "PARTITION", opTok "BY"]) ++ toksArgs4 d noX 8 part) ++
      (((if ord.isEmpty then [] else [opTok "ORDER", opTok "BY"]) ++ toksOrdList4 d noX ord) ++ toksRows rows)) :: rest)) =
      .ok (.window fn part ord rows, rest) := by
  have := tparse4 d (.window fn part ord rows) hf rest hr fuel (by simpa [toksE4] using hfuel)
  simpa [toksE4] using this
/-- `CAST(e AS [SIGNED] type [(p, …)])`: operand, SIGNED flag, type member, parameters -/
theorem cast_slots (d : Gen.D) (e : Expr) (sg : Bool) (ty : String) (ps : Option (List Int)) (hf : FragE4 d (.cast e sg ty ps) = true)
    (rest : List Tok) (hr : TP2.stops2 d rest = true) (fuel : Nat)
    (hfuel : 20 * sizeL [opTok "CAST", grp (W4 d noX e 8 ++ opTok "AS" :: ((if sg then [opTok "SIGNED"] else []) ++ opTok (castVal ty) :: castParamToks ps))] + 15 ≤ fuel) :
    pOr d fuel (opTok "CAST" :: grp (W4 d noX e 8 ++ opTok "AS" :: ((if sg then [opTok "SIGNED"] else []) ++ opTok (castVal ty) :: castParamToks ps)) :: rest) =
      .ok (.cast e sg ty ps, rest) := by
  have := tparse4 d (.cast e sg ty ps) hf rest hr fuel (by simpa [toksE4, W4] using hfuel)
  simpa [toksE4, W4] using this
/-- `EXTRACT(n FROM e)` -/
theorem extract_slots (d : Gen.D) (n e : Expr) (hf : FragE4 d (.extract n e) = true) (rest : List Tok) (hr : TP2.stops2 d rest = true) (fuel : Nat)
    (hfuel : 20 * sizeL [opTok "EXTRACT", grp (W4 d noX n 8 ++ opTok "FROM" :: W4 d noX e 8)] + 15 ≤ fuel) :
    pOr d fuel (opTok "EXTRACT" :: grp (W4 d noX n 8 ++ opTok "FROM" :: W4 d noX e 8) :: rest) = .ok (.extract n e, rest) := by
  have := tparse4 d (.extract n e) hf rest hr fuel (by simpa [toksE4, W4] using hfuel)
  simpa [toksE4, W4] using this
/-- `a[i]`: base and index -/
theorem index_slots (d : Gen.D) (a i : Expr) (hf : FragE4 d (.index a i) = true) (rest : List Tok) (hr : TP2.stops2 d rest = true) (fuel : Nat)
    (hfuel : 20 * sizeL (toksE4 d noX a ++ [arr (W4 d noX i 8)]) + 15 ≤ fuel) :
    pOr d fuel (toksE4 d noX a ++ (arr (W4 d noX i 8) :: rest)) = .ok (.index a i, rest) := by
  have := tparse4 d (.index a i) hf rest hr fuel (by simpa [toksE4, W4] using hfuel)
  simpa [toksE4, W4] using this
end C02

namespace C01
/-- **print / parse round trip of a query of the larger fragment, token level** -/
theorem query_round_trip_tokens2 (d : Gen.D) (q : Query) (hq : FragQ2 d q = true) (fuel : Nat) (hfuel : 20 * sizeL (toksQ2 d noX q) + 9 ≤ fuel) :
    pSelectStmt d fuel none (toksQ2 d noX q) = .ok (q, []) := by
  have := C03.tquery2 d q hq [] rfl fuel hfuel
  simpa using this
end C01

/-! ### non-vacuity (compiled evaluation) -/
namespace C03
/-- the token-level printer agrees with the lexer on the printer's text, and the tree is in the fragment -/
def agreesQ2 (d : Gen.D) (q : Query) : Bool :=
  match PR.prQ d q with
  | .ok x => eqbL (lexed x) (toksQ2 d noX q) && FragQ2 d q
  | .error _ => false
def roundTripsQ2 (d : Gen.D) (q : Query) : Bool :=
  match pSelectStmt d (20 * sizeL (toksQ2 d noX q) + 9) none (toksQ2 d noX q) with
  | .ok (p, []) => Drv.showVal p.toVal == Drv.showVal q.toVal
  | _ => false
def q2sel2 (cols : List (Expr × Option String)) (fr : Option (List FromTable)) (wh : Option Expr := none) (js : List Join := [])
    (gb : Option GroupBy := none) (ob : Option (List OrderItem) := none) (lats : List Lateral := []) (sb : Option (List OrderItem) := none)
    (db cb : Option (List Expr) := none) : Select :=
  .mk (some []) false cols fr lats js wh gb none ob sb db cb none
/-- window functions with every kind of frame bound, CAST with parameters, EXTRACT, IF -/
def q2w1 : Query := .single (q2sel2
  [(.window (.func none "row_number" []) [col "a", col "b"] [.mk (col "c") true false true, .mk (col "e") false true false]
      (some (.num 0 true, .current)), some "rn"),
   (.window (.agg "sum" [col "x"] false) [] [.mk (col "c") false false false] (some (.unbounded true, .num 3 false)), none),
   (.window (.agg "count" [.wildcard none] false) [] [] none, none),
   (.cast (.compute (col "a") "PLUS" (lit "1")) false "DECIMAL" (some [10, 2]), some "k"),
   (.cast (col "a") true "INT" none, none), (.cast (col "a") false "CHAR" (some []), none),
   (.extract (col "year") (col "ts"), none), (.func none "IF" [.compare "GT" (col "a") (lit "0"), lit "1", lit "2"], none)]
  (some [tb "t"]))
/-- USING, GROUPING SETS with the four shapes of a set, WITH CUBE / ROLLUP, NULLS -/
def q2w2 : Query := .single (q2sel2 [(col "a", none), (.agg "count" [.wildcard none] false, some "n")] (some [tb "t" (some "x")]) none
  [.mk "LEFT_JOIN" (tb "u" (some "y")) (some (.using (.func none "USING" [col "a", col "b"])))]
  (some (.mk [col "a", col "b"] (some [[], [col "a"], [.subQuery qa], [col "a", .compute (col "b") "PLUS" (lit "1")]]) true true))
  (some [.mk (col "a") true true false, .mk (col "b") false false true]))
def q2w2b : Query := .single (q2sel2 [(col "a", none)] (some [tb "t"]) none [] (some (.mk [] (some [[col "a"], [col "b"]]) false false)))
def q2w2c : Query := .single (q2sel2 [(col "a", none)] (some [tb "t"]) none [] (some (.mk [col "a"] none false true)))
/-- LATERAL VIEW [OUTER], the Hive clauses, an array index -/
def q2w3 : Query := .single (q2sel2 [(.index (col "a") (lit "1"), some "f"), (.index (.func none "split" [col "s", lit "','"]) (.compute (col "i") "PLUS" (lit "1")), none),
    (.index (.column (some "t") "m") (lit "'k'"), none)]
  (some [tb "t"]) (some (.compare "GT" (col "x") (lit "0"))) [.mk "JOIN" (tb "u") (some (.on (.compare "EQ" (col "a") (col "b"))))] none none
  [.mk false (.func none "explode" [col "arr"]) "v" ["x"], .mk true (.func none "posexplode" [col "m"]) "w" ["k", "val"]]
  (some [.mk (col "a") true false false]) (some [col "a", col "b"]) (some [col "c"]))
def q2w4 : Query := .union (some []) (q2sel2 [(.window (.func none "rank" []) [] [.mk (col "c") false false false] none, none)]
    (some [.mk (.sub q2w2c) (some "d")])) [("UNION_ALL", q2sel2 [(.cast (col "a") false "BIGINT" none, none)] none)]
#guard [q2w1, q2w2, q2w2b, q2w2c, q2w4].all (agreesQ2 .MYSQL) && [q2w1, q2w2, q2w2b, q2w2c, q2w3, q2w4].all (agreesQ2 .HIVE) && [q2w1, q2w2, q2w4].all (agreesQ2 .ORACLE) &&
  [q2w1, q2w2, q2w2c, q2w4].all (agreesQ2 .DEFAULT) && [q2w1, q2w2].all (agreesQ2 .POSTGRE_SQL)
#guard [q2w1, q2w2, q2w2b, q2w2c, q2w3, q2w4].all (roundTripsQ2 .MYSQL) && [q2w1, q2w2, q2w2b, q2w2c, q2w3, q2w4].all (roundTripsQ2 .HIVE) && [q2w1, q2w2, q2w3].all (roundTripsQ2 .DB2)
-- the printer refuses the Hive constructs for other dialects (C13.printable_iff); the token-level theorem holds for every dialect
#guard (match PR.prQ .MYSQL q2w3 with | .error _ => true | .ok _ => false) && FragQ2 .MYSQL q2w3
-- what may follow: the continuations of the old development, e.g. `;`
#guard stopsQ2 .MYSQL (lexed "; SELECT 2") && stopsQ2 .MYSQL [] && !stopsQ2 .MYSQL (lexed "SORT BY a") && !stopsQ2 .MYSQL (lexed "LATERAL VIEW f(x) t AS a")
-- outside the fragment: both NULLS phrases, a negative frame bound, a window over a qualified call, an index on an index
#guard !FragQ2 .HIVE (.single (q2sel2 [(col "a", none)] none none [] none (some [.mk (col "a") false true true]))) &&
  !FragE4 .HIVE (.window (.func none "f" []) [] [] (some (.num (-1) true, .current))) &&
  !FragE4 .HIVE (.window (.func (some "s") "f" []) [] [] none) && !FragE4 .HIVE (.index (.index (col "a") (lit "1")) (lit "2"))
-- F-C09-2 as seen by the fragment: the spelling of USING is part of the tree, both spellings are in the fragment and parse to different trees
#guard FragQ2 .MYSQL (.single (q2sel2 [(col "a", none)] (some [tb "t"]) none [.mk "JOIN" (tb "u") (some (.using (.func none "using" [col "a"])))])) &&
  (match pSelectStmt .MYSQL 2000 none (lexed "SELECT a FROM t JOIN u using(a)"), pSelectStmt .MYSQL 2000 none (lexed "SELECT a FROM t JOIN u USING(a)") with
   | .ok (p, []), .ok (p', []) => Drv.showVal p.toVal != Drv.showVal p'.toVal | _, _ => false)
-- instances of the theorems (hypotheses decided by the kernel, conclusions the theorems')
set_option maxRecDepth 100000 in
example : pSelectStmt .HIVE (fuelFor (toksQ2 .HIVE noX q2w2c ++ lexed "; x")) none (toksQ2 .HIVE noX q2w2c ++ lexed "; x") = .ok (q2w2c, lexed "; x") :=
  tquery2_entry_fuel .HIVE q2w2c (by decide) _ (by decide)
end C03
