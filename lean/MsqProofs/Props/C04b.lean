import MsqProofs.Props.C04
import MsqProofs.Props.C05
import MsqProofs.Lemmas.LexScan
import MsqProofs.Lemmas.LexRetain
import MsqProofs.Oblig.ScanCfg0
import MsqProofs.Oblig.ScanCfg1
import MsqProofs.Oblig.ScanCfg2
import MsqProofs.Oblig.ScanCfg3
import MsqProofs.Oblig.ScanCfg4
import MsqProofs.Oblig.ScanCfg5
import MsqProofs.Oblig.ScanCfg6
import MsqProofs.Oblig.ScanCfg7
/-!
# C04 (b), (c), (d) — bracket structure and retention

(b)+(c) `C04.bracket_skeleton`: for all 8 settings and every accepted text, the bracket skeleton of the token tree
(pre-order: `opn`, the children, `cls k` for a group of kind `k`) IS the bracket skeleton of the pre-processed input as
seen by a structural scanner (`Scan.bracketSkeleton`, `MsqProofs/Lemmas/LexScan.lean`) that knows only quotes, comments,
brackets and where a bare token ends — no table, no windows, no stack.  Read as a statement about the lexer:
every `(` / `[` outside quotes and comments opens exactly one group, every `)` / `]` closes exactly the innermost open
one, groups nest as the brackets do, the depth never goes negative and is zero at the end.

The two findings stay visible:
* F-C04-1: the event of an opening bracket is the kind-less `Ev.opn`, the kind of a group is that of its CLOSING
  bracket (`cls paren` for `)`, `cls slice` for `]`): mixed pairs are accepted (`witness_kind_of_closing`);
* F-C04-2 concerns rendering and is visible in (d).

`C04.unbalanced_rejected_all`: a text whose bracket skeleton is unbalanced is not accepted (any setting).

(d) `C04.retained_concat`: under setting 0 (nothing ignored), for every accepted text the concatenation of the token
texts as the model renders them (`sourceL`, i.e. `AMTBase.source`: a group renders with ROUND brackets whatever its
kind — F-C04-2) equals the pre-processed input with exactly the bracket characters that were read as brackets put in
their round form (`roundBrackets`: brackets inside quotes and comments stay as written); on raw text this is modulo the
pre-pass (F-C04-3: TAB, CR LF, U+3000 do not come back).  Corollaries: equality up to the kind of bracket characters
(`retained_concat_map`), and exact reproduction of every input without square brackets (`retained_concat_exact`).
-/
namespace C04
open Lex Scan

theorem mem_allCls (c : Gen.Cls) : c ∈ Gen.allCls := by cases c <;> decide

theorem cfgOf_eq (i : Fin 8) : cfgOf i = C05.cfgOf i := by
  match i with
  | 0 => rfl | 1 => rfl | 2 => rfl | 3 => rfl | 4 => rfl | 5 => rfl | 6 => rfl | 7 => rfl

theorem summarizable (i : Fin 8) (c : Gen.Cls) : (summarize ((cfgOf i).code c)).isSome = true := by
  have h : ∀ (cfg : Cfg Gen.Cls), Gen.allCls.all (fun c => (summarize (cfg.code c)).isSome) = true →
      (summarize (cfg.code c)).isSome = true := fun cfg h => (List.all_eq_true.mp h) c (mem_allCls c)
  match i with
  | 0 => exact h _ Oblig.summarizable_cfg0 | 1 => exact h _ Oblig.summarizable_cfg1
  | 2 => exact h _ Oblig.summarizable_cfg2 | 3 => exact h _ Oblig.summarizable_cfg3
  | 4 => exact h _ Oblig.summarizable_cfg4 | 5 => exact h _ Oblig.summarizable_cfg5
  | 6 => exact h _ Oblig.summarizable_cfg6 | 7 => exact h _ Oblig.summarizable_cfg7

theorem depth_le (i : Fin 8) : (cfgOf i).depthLimit ≤ 1 := by
  match i with
  | 0 => exact Oblig.depth_cfg0 | 1 => exact Oblig.depth_cfg1 | 2 => exact Oblig.depth_cfg2 | 3 => exact Oblig.depth_cfg3
  | 4 => exact Oblig.depth_cfg4 | 5 => exact Oblig.depth_cfg5 | 6 => exact Oblig.depth_cfg6 | 7 => exact Oblig.depth_cfg7

theorem scanSim (i : Fin 8) : simCheck (cfgOf i) = true := by
  match i with
  | 0 => exact Oblig.scanSim_cfg0 | 1 => exact Oblig.scanSim_cfg1 | 2 => exact Oblig.scanSim_cfg2
  | 3 => exact Oblig.scanSim_cfg3 | 4 => exact Oblig.scanSim_cfg4 | 5 => exact Oblig.scanSim_cfg5
  | 6 => exact Oblig.scanSim_cfg6 | 7 => exact Oblig.scanSim_cfg7

/-- the table does not distinguish characters the grammar does not distinguish (from the C05 agreement) -/
theorem lookup_norm (i : Fin 8) (s : S) (n : Nat) :
    Spec.lookupN (cfgOf i) s n = Spec.lookupN (cfgOf i) s (Spec.norm n) := by
  rw [cfgOf_eq]; exact Spec.lookupN_norm _ _ (C05.agreeFin_all i) s n

/-- **C04.bracket_skeleton** (b, c): all 8 settings, every accepted text. -/
theorem bracket_skeleton (i : Fin 8) (raw : List Char) (ts : List Tok) (h : lex (cfgOf i) raw = .ok ts) :
    skelL ts = bracketSkeleton ((cfgOf i).pre raw) :=
  lex_scan (cfgOf i) (summarizable i) (lookup_norm i) (scanSim i) (depth_le i) raw ts h

/-- … hence the brackets of an accepted text (outside quotes and comments) are balanced: never more closing than opening
ones, none left open -/
theorem accepted_balanced (i : Fin 8) (raw : List Char) (ts : List Tok) (h : lex (cfgOf i) raw = .ok ts) :
    depthOK 0 (bracketSkeleton ((cfgOf i).pre raw)) = true := by
  rw [← bracket_skeleton i raw ts h]; exact depthOK_tree ts

/-- **C04.unbalanced_rejected_all**: a text whose bracket skeleton is unbalanced — a closing bracket with no open
group, or a group left open at the end — is not accepted, under any setting. -/
theorem unbalanced_rejected_all (i : Fin 8) (raw : List Char)
    (hu : depthOK 0 (bracketSkeleton ((cfgOf i).pre raw)) = false) : ∀ ts, lex (cfgOf i) raw ≠ .ok ts :=
  lex_scan_unbalanced (cfgOf i) (summarizable i) (lookup_norm i) (scanSim i) (depth_le i) raw hu

/-- what the scanner does with the four bracket characters between tokens: `(` and `[` are the same kind-less opening
event (F-C04-1), `)` and `]` close a group of their own kind -/
theorem bracket_events : fresh '('.toNat = (.N, [.opn]) ∧ fresh '['.toNat = (.N, [.opn]) ∧
    fresh ')'.toNat = (.N, [.cls .paren]) ∧ fresh ']'.toNat = (.N, [.cls .slice]) := by decide

/-- F-C04-1 on the model: the kind of a group is the kind of its closing bracket -/
theorem witness_kind_of_closing :
    lexesTo (lex (cfgOf 7) "(a]".toList) [.group .slice [.single ['a'] 2] 512] = true ∧
    lexesTo (lex (cfgOf 7) "[a)".toList) [.group .paren [.single ['a'] 2] 4] = true ∧
    bracketSkeleton "(a]".toList = [.opn, .cls .slice] ∧ bracketSkeleton "[a)".toList = [.opn, .cls .paren] := by
  decide +kernel

/-- non-vacuity: nested mixed brackets, brackets inside quotes and comments (invisible), the `#` quirk (`b#(`: the `(`
is a bracket), a bit literal; the tree the kernel computes has exactly that skeleton -/
example :
    bracketSkeleton "f(a[1], '(' /* [ */ \")\" `]` (b#c) -- )\n) x'1F' b'01'".toList =
      [.opn, .opn, .cls .slice, .opn, .cls .paren, .cls .paren] ∧
    (match lex (cfgOf 7) "f(a[1], '(' /* [ */ \")\" `]` (b#c) -- )\n) x'1F' b'01'".toList with
      | .ok ts => skelL ts == [.opn, .opn, .cls .slice, .opn, .cls .paren, .cls .paren] | .error _ => false) = true ∧
    depthOK 0 (bracketSkeleton "f(a[1]".toList) = false ∧ depthOK 0 (bracketSkeleton "a)(".toList) = false ∧
    depthOK 0 (bracketSkeleton "')' /* ( */".toList) = true := by decide +kernel

/-! ## (d) retention -/

/-- the table of setting 0 never drops a window silently: the only operations that discard characters are the bracket
operations, which advance, between tokens, on a bracket character of their direction -/
theorem retainOK_cfg0 : retainOK Gen.Cfg0.cfg = true := by decide +kernel

/-- … and it is the only such setting (every other one ignores blanks, line breaks or comments) -/
example : retainOK Gen.Cfg1.cfg = false ∧ retainOK Gen.Cfg2.cfg = false ∧ retainOK Gen.Cfg4.cfg = false ∧
    retainOK Gen.Cfg7.cfg = false := by decide +kernel

/-- **C04.retained_concat** (d): under setting 0, for every accepted text, the rendered token texts concatenate to the
pre-processed input with the brackets that were read as brackets in round form. -/
theorem retained_concat (raw : List Char) (ts : List Tok) (h : lex (cfgOf 0) raw = .ok ts) :
    sourceL ts = roundBrackets ((cfgOf 0).pre raw) :=
  lex_retained Gen.Cfg0.cfg Gen.Cfg0.advSt Gen.Cfg0.wk Oblig.tableOK_cfg0 (summarizable 0) retainOK_cfg0
    (lookup_norm 0) (scanSim 0) (depth_le 0) raw ts h

/-- … hence equality up to the kind of the bracket characters -/
theorem retained_concat_map (raw : List Char) (ts : List Tok) (h : lex (cfgOf 0) raw = .ok ts) :
    (sourceL ts).map nbc = ((cfgOf 0).pre raw).map nbc := by
  rw [retained_concat raw ts h]; exact rbAll_map _ _

theorem roundBrackets_id (μ : Scan.Mode) (t : List Char) (h : ∀ c ∈ t, c ≠ '[' ∧ c ≠ ']') : (rbAll μ t).2 = t := by
  induction t generalizing μ with
  | nil => rfl
  | cons c cs ih =>
    have hc := h c (by simp)
    have : nbc c = c := by simp [nbc, hc.1, hc.2]
    simp only [rbAll, this, ite_self]
    rw [ih _ fun d hd => h d (by simp [hd])]

/-- … and exact reproduction ("concatenating the token texts reproduces the input") of every accepted input that
contains no square bracket -/
theorem retained_concat_exact (raw : List Char) (ts : List Tok) (h : lex (cfgOf 0) raw = .ok ts)
    (hsq : ∀ c ∈ (cfgOf 0).pre raw, c ≠ '[' ∧ c ≠ ']') : sourceL ts = (cfgOf 0).pre raw := by
  rw [retained_concat raw ts h]; exact roundBrackets_id _ _ hsq

/-- non-vacuity, F-C04-2 and F-C04-3 on the model: nested mixed brackets render round, brackets inside quotes and
comments come back as written, blanks and comments are retained, a TAB comes back as a blank -/
example :
    roundBrackets "f(a[1], '[' /* ] */ \"[\" `]` (b]) -- [\n".toList = "f(a(1), '[' /* ] */ \"[\" `]` (b)) -- [\n".toList ∧
    (match lex (cfgOf 0) "f(a[1], '[' /* ] */ \"[\" `]` (b]) -- [\n".toList with
      | .ok ts => sourceL ts == "f(a(1), '[' /* ] */ \"[\" `]` (b)) -- [\n".toList | .error _ => false) = true ∧
    (match lex (cfgOf 0) "a\t[1]".toList with | .ok ts => sourceL ts == "a (1)".toList | .error _ => false) = true := by
  decide +kernel

end C04
