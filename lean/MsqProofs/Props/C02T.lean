import MsqProofs.Lemmas.TParse
import MsqModel.Parse.Entry
import MsqModel.Driver.ShowVal
/-!
# C02 / C01 — T-parse on the expression grammar: the parser inverts the token-level printer for every tree of the operator fragment

**Fragment** (`TP.Frag d e : Bool`, any depth, any nesting):
* atoms: column references `.column none c` whose back-quoted token reads back as `c` and is no grammar word (`colOK`: true of EVERY
  plain name, `colOK_of_plain`), literal leaves whose token carries the LITERAL mark and is no operator word (`litOK`: integers,
  quoted strings, `NULL` / `TRUE` / `FALSE`);
* unary operators of the dialect (`-`, `+`, `~`, and `!` where it is unary: not for Hive) — `unOK`;
* every binary compute operator of `Gen.computeEnum` at levels 3 … 8 that the dialect's printer supports (`^`, `*`, `/`, `%`, `+`, `-`,
  `<<`, `>>`, `&`, `|`; `MOD` only where `computeOpSrc` prints it) — `binOK`; `all_operators_in_fragment` checks the tables;
* every comparison operator of `Gen.compareEnum` — `cmpOK`;
* `IS [NOT]`, `[NOT] LIKE`, `[NOT] RLIKE`, `[NOT] REGEXP`, `[NOT] BETWEEN … AND …` with arbitrary fragment operands (not only literals),
  chained to any length; `NOT`; `AND`; `XOR`; `OR`.
Not in the fragment: `IN`, `EXISTS`, function calls, `CASE`, qualified columns, wildcards, array index, sub-queries.

**Token-level printer** `TP.toksE d ch e`: what `PR.prE d e` prints as the tokens the lexer makes of it; a child is wrapped in a
PARENTHESIS group exactly when `PR.lvl child > bound` (the condition of `PR.wrap`, the bounds of `PR.prE`) — or, additionally, when
`ch child` says so: `ch` chooses ANY set of sub-terms to wrap REDUNDANTLY (`noX = fun _ => false` is the printer).
The link `lex (prE d e) = toksE d noX e` is the lexer's business (C05 / C06) and is NOT proved here; `#guard`s at the end check it by
compiled evaluation on concrete trees, dialects and operators.

**Theorems** (explicit fuel, every dialect, every continuation that does not continue an expression — `TP.stops d rest`: empty, or the
head is no bracket / array index / `.` and none of the operator or keyword words of the expression grammar):
* `C02.tparse`  : `Frag d e → stops d rest → 20 * sizeL (toksE d ch e) + 15 ≤ fuel → pOr d fuel (toksE d ch e ++ rest) = ok (e, rest)`;
  `tparse_entry_fuel` (the fuel `parse_*` computes, `fuelFor`), `tparse_size` (`120 * sz e + 15`), `tparse_compute` … `tparse_xor`
  (the same at every precedence level the public entry points expose, for trees of at most that level);
* `C02.redundant_brackets` : every choice of redundant brackets, and brackets around the whole expression, give the same tree;
* `C02.grouping_brackets_honoured` : two fragment trees with the same rendering are equal — brackets that change the grouping change
  the tree; with `#guard`s on `(a + b) * c` vs `a + b * c`;
* `C01.expr_round_trip_tokens` : `pOr d fuel (toksE d noX e) = ok (e, [])`.
How the compute layer is proved: `MsqProofs/Lemmas/TParseCompute.lean` (the printer's wrapping rule makes the tree THE well-nested
tree of its flat rendering; `SR.shiftReduce_spec` = uniqueness; the model's stack loop = `shiftReduce`).
-/
set_option linter.unusedVariables false
set_option linter.unusedSimpArgs false
open Lex PM Ast TP

namespace TP
/-- no redundant brackets: the printer's rendering -/
def noX : Expr → Bool := fun _ => false

/-! ### every plain name is an atom of the fragment -/
theorem toList_src_nameTok (c : String) : (nameTok c).src.toList = '`' :: (c.toList ++ ['`']) := by
  simp [nameTok, Tok.src, Tok.source, String.toList_ofList]
theorem pyUpper_bq (r : List Char) : Gen.pyUpper ('`' :: r) = '`' :: Gen.pyUpper r := by
  simp only [Gen.pyUpper, Py.upperWith, List.flatMap_cons]
  have h1 : ('`'.toNat < 128) = True := by decide
  have h2 : Py.upperAsciiChar '`' = '`' := by decide
  simp [h1, h2]
theorem dropWhile_bq_plain (cl : List Char) (h : cl.head?.all (· != '`') = true) : cl.dropWhile (· == '`') = cl := by
  cases cl with
  | nil => rfl
  | cons a r =>
    simp only [List.head?_cons, Option.all_some, bne_iff_ne, ne_eq] at h
    have : (a == '`') = false := by simpa using h
    simp [List.dropWhile, this]
theorem unifyName_nameTok (c : String) (h1 : c.toList ≠ []) (h2 : c.toList.head?.all (· != '`') = true)
    (h3 : c.toList.reverse.head?.all (· != '`') = true) : unifyName (nameTok c).src = c := by
  unfold unifyName
  rw [toList_src_nameTok]
  have a : ('`' :: (c.toList ++ ['`'])).dropWhile (· == '`') = c.toList ++ ['`'] := by
    have : (c.toList ++ ['`']).head?.all (· != '`') = true := by
      cases hc : c.toList with
      | nil => exact absurd hc h1
      | cons x r => rw [hc] at h2; simpa using h2
    simp only [List.dropWhile, beq_self_eq_true]
    exact dropWhile_bq_plain _ this
  rw [a]
  have b : ((c.toList ++ ['`']).reverse).dropWhile (· == '`') = c.toList.reverse := by
    simp only [List.reverse_append, List.reverse_cons, List.reverse_nil, List.nil_append, List.cons_append, List.dropWhile,
      beq_self_eq_true]
    exact dropWhile_bq_plain _ h3
  rw [b, List.reverse_reverse, String.ofList_toList]
theorem plain_chars (c : String) (h : PR.isPlainName c = true) :
    c.toList ≠ [] ∧ c.toList.head?.all (· != '`') = true ∧ c.toList.reverse.head?.all (· != '`') = true := by
  unfold PR.isPlainName at h
  have hbq : ∀ x : Char, (x.isAlphanum || x == '_') = true → x ≠ '`' := by
    intro x hx he; subst he; exact absurd hx (by decide)
  have hbq' : ∀ x : Char, (x.isAlpha || x == '_') = true → x ≠ '`' := by
    intro x hx he; subst he; exact absurd hx (by decide)
  cases hc : c.toList with
  | nil => rw [hc] at h; simp at h
  | cons a r =>
    rw [hc] at h
    simp only [Bool.and_eq_true, List.all_eq_true] at h
    refine ⟨by simp, by simpa using hbq' a h.1, ?_⟩
    cases hr : (a :: r).reverse with
    | nil => simp at hr
    | cons z zs =>
      have hz : z ∈ a :: r := by
        have : z ∈ (a :: r).reverse := by rw [hr]; simp
        exact List.mem_reverse.1 this
      simp only [List.head?_cons, Option.all_some, bne_iff_ne, ne_eq]
      simp only [List.mem_cons] at hz
      rcases hz with rfl | hz
      · exact hbq' _ h.1
      · exact hbq _ (h.2 z hz)
/-- a column whose name is a plain name (`[A-Za-z_][A-Za-z0-9_]*`) is an atom of the fragment, in every dialect -/
theorem colOK_of_plain (d : Gen.D) (c : String) (h : PR.isPlainName c = true) : colOK d c = true := by
  obtain ⟨p1, p2, p3⟩ := plain_chars c h
  have h1 : (nameTok c).src.toList.head? = some '`' := by simp [toList_src_nameTok]
  have h2 : (up (nameTok c).src).toList.head? = some '`' := by
    simp [up, Gen.pyUpperS, String.toList_ofList, toList_src_nameTok, pyUpper_bq]
  have a : ["SELECT", "WITH"].contains (up (nameTok c).src) = false := not_contains_of_head h2 (by decide)
  have b : (Gen.notSet d).contains (up (nameTok c).src) = false := not_contains_of_head h2 (by cases d <;> decide)
  have c' : (Gen.unarySet d).contains (nameTok c).src = false := not_contains_of_head h1 (by cases d <;> decide)
  have e : (nameTok c).srcEqUp "EXISTS" = false := by
    simp only [Tok.srcEqUp, beq_eq_false_iff_ne, ne_eq]; exact ne_of_head h2 (by decide)
  have f : (nameTok c).srcEqUp "CASE" = false := by
    simp only [Tok.srcEqUp, beq_eq_false_iff_ne, ne_eq]; exact ne_of_head h2 (by decide)
  have g : (nameTok c).srcEq "*" = false := by
    simp only [Tok.srcEq, beq_eq_false_iff_ne, ne_eq]; exact ne_of_head h1 (by decide)
  have u := unifyName_nameTok c p1 p2 p3
  simp only [colOK, elemTok, operandTok, startTok, a, b, c', e, f, g, u, beq_self_eq_true]; rfl

/-- every unary operator, binary compute operator (levels 3 … 8) and comparison operator of the generated tables is in the
fragment, in every dialect whose printer prints it -/
theorem all_operators_in_fragment :
    Gen.allD.all (fun d =>
      Gen.computeEnum.all (fun e => e.2.2 < 3 || !printsAs (PR.computeOpSrc d e.1) e.2.1 || binOK d e.1) &&
      Gen.computeEnum.all (fun e => !(Gen.unarySet d).contains e.2.1 || unOK d e.1) &&
      Gen.compareEnum.all (fun e => cmpOK d e.1)) = true := by decide

theorem sizeL_kwToks (k : KwKind) (n : Bool) : sizeL (kwToks k n) ≤ 2 := by
  cases k <;> cases n <;> simp [kwToks, sizeL, Tok.size, opTok]
/-- the rendering has at most six tokens per node -/
theorem sizeL_toksE_le (d : Gen.D) (ch : Expr → Bool) : ∀ n e, sz e ≤ n → sizeL (toksE d ch e) ≤ 6 * sz e := by
  intro n
  induction n with
  | zero => intro e he; cases e <;> simp [sz] at he
  | succ n ih =>
    intro e he
    have w := fun (x : Expr) (k : Nat) => sizeL_W_ge d ch x k
    simp only [W] at w
    cases e <;> simp only [sz] at he <;>
      simp only [toksE, sz, sizeL, sizeL_append, sizeL_cons, size_opTok, Tok.size, nameTok, litTok, Nat.le_refl] <;> try omega
    case unary o x => have := ih x (by omega); have := w x 2; omega
    case compute l o r =>
      have := ih l (by omega); have := ih r (by omega)
      have := w l (PR.lvl (.compute l o r)); have := w r (PR.lvl (.compute l o r) - 1); omega
    case kw k n0 l r =>
      have := ih l (by omega); have := ih r (by omega); have := w l 9; have := w r 8; have := sizeL_kwToks k n0; omega
    case between n0 b f t =>
      have := ih b (by omega); have := ih f (by omega); have := ih t (by omega); have := w b 9; have := w f 8; have := w t 8
      cases n0 <;> simp [sizeL, size_opTok] <;> omega
    case compare o l r => have := ih l (by omega); have := ih r (by omega); have := w l 10; have := w r 9; omega
    case not_ x => have := ih x (by omega); have := w x 11; omega
    case and_ l r => have := ih l (by omega); have := ih r (by omega); have := w l 12; have := w r 11; omega
    case xor l r => have := ih l (by omega); have := ih r (by omega); have := w l 13; have := w r 12; omega
    case or_ l r => have := ih l (by omega); have := ih r (by omega); have := w l 14; have := w r 13; omega
end TP

namespace C02
/-- the whole record of level statements for a fragment tree -/
theorem rt (d : Gen.D) (ch : Expr → Bool) (e : Expr) (hf : Frag d e = true) : RT d ch e := rt_all (sz e) e (Nat.le_refl _) hf

/-- **T-parse, expression grammar.**  The parser returns exactly the tree from its token rendering, in front of every continuation that
does not continue an expression, for every choice `ch` of redundant brackets, at every fuel above an explicit linear bound -/
theorem tparse (d : Gen.D) (ch : Expr → Bool) (e : Expr) (hf : Frag d e = true) (rest : List Tok) (hr : stops d rest = true)
    (fuel : Nat) (hfuel : 20 * sizeL (toksE d ch e) + 15 ≤ fuel) : pOr d fuel (toksE d ch e ++ rest) = .ok (e, rest) :=
  (rt d ch e hf).own.s14 rest hr fuel hfuel
/-- with the fuel the public entry points compute from the token list -/
theorem tparse_entry_fuel (d : Gen.D) (ch : Expr → Bool) (e : Expr) (hf : Frag d e = true) (rest : List Tok) (hr : stops d rest = true) :
    pOr d (fuelFor (toksE d ch e ++ rest)) (toksE d ch e ++ rest) = .ok (e, rest) :=
  tparse d ch e hf rest hr _ (by simp only [fuelFor, sizeL_append]; omega)
/-- with a bound in the number of nodes of the tree -/
theorem tparse_size (d : Gen.D) (ch : Expr → Bool) (e : Expr) (hf : Frag d e = true) (rest : List Tok) (hr : stops d rest = true)
    (fuel : Nat) (hfuel : 120 * sz e + 15 ≤ fuel) : pOr d fuel (toksE d ch e ++ rest) = .ok (e, rest) :=
  tparse d ch e hf rest hr fuel (by have := sizeL_toksE_le d ch (sz e) e (Nat.le_refl _); omega)

/-- the compute level (C02's central clause, for whole trees): a tree of level `≤ 8` is returned by `_parse_compute_expression` in
front of anything that is no compute operator and does not continue an element -/
theorem tparse_compute (d : Gen.D) (ch : Expr → Bool) (e : Expr) (hf : Frag d e = true) (hl : PR.lvl e ≤ 8) (rest : List Tok)
    (hr : stopLE d 8 rest = true) (fuel : Nat) (hfuel : 20 * sizeL (toksE d ch e) + 2 ≤ fuel) :
    pCompute d fuel (toksE d ch e ++ rest) = .ok (e, rest) := (rt d ch e hf).own.s8 hl rest hr fuel hfuel
theorem tparse_unary (d : Gen.D) (ch : Expr → Bool) (e : Expr) (hf : Frag d e = true) (hl : PR.lvl e ≤ 2) (rest : List Tok)
    (hr : stopLE d 2 rest = true) (fuel : Nat) (hfuel : 20 * sizeL (toksE d ch e) ≤ fuel) :
    pUnary d fuel (toksE d ch e ++ rest) = .ok (e, rest) := (rt d ch e hf).own.s2 hl rest hr fuel (by omega)
theorem tparse_keyword (d : Gen.D) (ch : Expr → Bool) (e : Expr) (hf : Frag d e = true) (hl : PR.lvl e ≤ 9) (rest : List Tok)
    (hr : stopLE d 9 rest = true) (fuel : Nat) (hfuel : 20 * sizeL (toksE d ch e) + 6 ≤ fuel) :
    pKeyword d fuel none (toksE d ch e ++ rest) = .ok (e, rest) := (rt d ch e hf).own.s9 hl rest hr fuel hfuel
theorem tparse_compare (d : Gen.D) (ch : Expr → Bool) (e : Expr) (hf : Frag d e = true) (hl : PR.lvl e ≤ 10) (rest : List Tok)
    (hr : stopLE d 10 rest = true) (fuel : Nat) (hfuel : 20 * sizeL (toksE d ch e) + 8 ≤ fuel) :
    pCompare d fuel (toksE d ch e ++ rest) = .ok (e, rest) := (rt d ch e hf).own.s10 hl rest hr fuel hfuel
theorem tparse_not (d : Gen.D) (ch : Expr → Bool) (e : Expr) (hf : Frag d e = true) (hl : PR.lvl e ≤ 11) (rest : List Tok)
    (hr : stopLE d 11 rest = true) (fuel : Nat) (hfuel : 20 * sizeL (toksE d ch e) + 9 ≤ fuel) :
    pNot d fuel (toksE d ch e ++ rest) = .ok (e, rest) := (rt d ch e hf).own.s11 hl rest hr fuel hfuel
theorem tparse_and (d : Gen.D) (ch : Expr → Bool) (e : Expr) (hf : Frag d e = true) (hl : PR.lvl e ≤ 12) (rest : List Tok)
    (hr : stopLE d 12 rest = true) (fuel : Nat) (hfuel : 20 * sizeL (toksE d ch e) + 11 ≤ fuel) :
    pAnd d fuel (toksE d ch e ++ rest) = .ok (e, rest) := (rt d ch e hf).own.s12 hl rest hr fuel hfuel
theorem tparse_xor (d : Gen.D) (ch : Expr → Bool) (e : Expr) (hf : Frag d e = true) (hl : PR.lvl e ≤ 13) (rest : List Tok)
    (hr : stopLE d 13 rest = true) (fuel : Nat) (hfuel : 20 * sizeL (toksE d ch e) + 13 ≤ fuel) :
    pXor d fuel (toksE d ch e ++ rest) = .ok (e, rest) := (rt d ch e hf).own.s13 hl rest hr fuel hfuel

/-- **redundant brackets do not change the tree**: whatever sub-terms are wrapped redundantly (`ch`), the parse is the parse of the
printer's rendering; and a bracket around the whole expression changes nothing either -/
theorem redundant_brackets (d : Gen.D) (ch : Expr → Bool) (e : Expr) (hf : Frag d e = true) (rest : List Tok) (hr : stops d rest = true)
    (fuel : Nat) (h1 : 20 * sizeL (toksE d ch e) + 35 ≤ fuel) :
    pOr d fuel (toksE d ch e ++ rest) = pOr d fuel (toksE d noX e ++ rest) ∧
    pOr d fuel (grp (toksE d ch e) :: rest) = pOr d fuel (toksE d noX e ++ rest) := by
  have hle : sizeL (toksE d noX e) ≤ sizeL (toksE d ch e) := by
    have key : ∀ n x, sz x ≤ n → sizeL (toksE d noX x) ≤ sizeL (toksE d ch x) := by
      intro n
      induction n with
      | zero => intro x hx; cases x <;> simp [sz] at hx
      | succ n ih =>
        intro x hx
        have w : ∀ (y : Expr) (k : Nat), sz y ≤ n → sizeL (wrapT (noX y) y k (toksE d noX y)) ≤ sizeL (wrapT (ch y) y k (toksE d ch y)) := by
          intro y k hy
          have := ih y hy
          unfold wrapT
          by_cases h : PR.lvl y > k
          · simp [h, sizeL, size_grp]; omega
          · cases hc : ch y <;> simp [h, noX, sizeL, size_grp] <;> omega
        cases x <;> simp only [sz] at hx <;>
          simp only [toksE, sizeL, sizeL_append, sizeL_cons, size_opTok, Nat.le_refl]
        case unary o y => have := w y 2 (by omega); omega
        case compute l o r => have := w l (PR.lvl (.compute l o r)) (by omega); have := w r (PR.lvl (.compute l o r) - 1) (by omega); omega
        case kw k n0 l r => have := w l 9 (by omega); have := w r 8 (by omega); omega
        case between n0 b f t => have := w b 9 (by omega); have := w f 8 (by omega); have := w t 8 (by omega); omega
        case compare o l r => have := w l 10 (by omega); have := w r 9 (by omega); omega
        case not_ y => have := w y 11 (by omega); omega
        case and_ l r => have := w l 12 (by omega); have := w r 11 (by omega); omega
        case xor l r => have := w l 13 (by omega); have := w r 12 (by omega); omega
        case or_ l r => have := w l 14 (by omega); have := w r 13 (by omega); omega
    exact key (sz e) e (Nat.le_refl _)
  have a := tparse d ch e hf rest hr fuel (by omega)
  have b := tparse d noX e hf rest hr fuel (by omega)
  have c : pOr d fuel ([grp (toksE d ch e)] ++ rest) = .ok (e, rest) :=
    (rt d ch e hf).wrapped.s14 rest hr fuel (by simp only [sizeL, size_grp]; omega)
  exact ⟨by rw [a, b], by rw [b]; exact c⟩

/-- **grouping brackets are honoured**: the rendering determines the tree — two trees of the fragment with the same token rendering
(under any choices of redundant brackets) are equal, so brackets that change the grouping change the tree -/
theorem grouping_brackets_honoured (d : Gen.D) (ch ch' : Expr → Bool) (e e' : Expr) (hf : Frag d e = true) (hf' : Frag d e' = true)
    (h : toksE d ch e = toksE d ch' e') : e = e' := by
  have a := tparse d ch e hf [] rfl (20 * sizeL (toksE d ch e) + 15) (Nat.le_refl _)
  have b := tparse d ch' e' hf' [] rfl (20 * sizeL (toksE d ch e) + 15) (by rw [h]; exact Nat.le_refl _)
  rw [← h, a] at b
  simp only [Except.ok.injEq, Prod.mk.injEq, and_true] at b
  exact b
end C02

namespace C01
/-- **print / parse round trip of expressions, token level**: parsing the printer's rendering gives the tree back, nothing left -/
theorem expr_round_trip_tokens (d : Gen.D) (e : Expr) (hf : Frag d e = true) (fuel : Nat) (hfuel : 20 * sizeL (toksE d noX e) + 15 ≤ fuel) :
    pOr d fuel (toksE d noX e) = .ok (e, []) := by
  have := C02.tparse d noX e hf [] rfl fuel hfuel
  simpa using this
end C01

/-! ### non-vacuity (compiled evaluation: `String` operations are slow in the kernel) -/
namespace C02
def lexed (s : String) : List Tok := match Lex.lex Gen.cfgS s.toList with | .ok ts => ts | .error _ => []
def col (c : String) : Expr := .column none c
def lit (v : String) : Expr := .literal v
/-- the token-level printer agrees with the lexer on the printer's text -/
def agrees (d : Gen.D) (e : Expr) : Bool :=
  match PR.prE d e with
  | .ok s => eqbL (lexed s) (toksE d noX e) && Frag d e
  | .error _ => false
/-- the theorem's conclusion, evaluated (the hypotheses are `Frag` and the fuel) -/
def roundTrips (d : Gen.D) (e : Expr) : Bool :=
  match pOr d (20 * sizeL (toksE d noX e) + 15) (toksE d noX e) with
  | .ok (e', []) => Drv.showVal e'.toVal == Drv.showVal e.toVal
  | _ => false

def e1 : Expr := .compute (.compute (col "a") "PLUS" (col "b")) "MULTIPLE" (.unary "SUBTRACT" (lit "2"))          -- (a + b) * -2
def e2 : Expr := .compute (col "a") "PLUS" (.compute (col "b") "MULTIPLE" (lit "2"))                                -- a + b * 2
def e3 : Expr := .compute (col "a") "SUBTRACT" (.compute (col "b") "SUBTRACT" (col "c"))                            -- a - (b - c)
def e4 : Expr := .or_ (.and_ (.not_ (.compare "EQ" (col "a") (lit "1"))) (.kw .is true (col "b") (lit "NULL")))
    (.xor (.between false (col "c") (lit "1") (.compute (lit "2") "BITWISE_OR" (lit "3"))) (.kw .like true (col "d") (lit "'x%'")))
def e5 : Expr := .and_ (.or_ (col "a") (col "b")) (.not_ (.not_ (.kw .rlike false (.kw .is false (col "c") (lit "TRUE")) (lit "'r'"))))
def e6 : Expr := .compare "NEQ" (.compare "LT" (col "a") (col "b")) (.compare "SAME_EQUAL" (col "c") (col "d"))     -- a < b != (c <=> d)
def e7 : Expr := .compute (.compute (.compute (col "a") "SHIFT_LEFT" (lit "1")) "BITWISE_AND" (.compute (col "b") "BITWISE_XOR" (col "c")))
    "BITWISE_OR" (.compute (.compute (col "d") "DIVIDE" (col "e")) "MOD" (.unary "BITWISE_INVERSION" (.unary "PLUS" (col "f"))))

#guard [e1, e2, e3, e4, e5, e6, e7].all (agrees .MYSQL) && [e1, e2, e3, e4, e5, e6, e7].all (agrees .HIVE)
#guard [e1, e2, e3, e4, e5, e6].all (agrees .ORACLE) && [e1, e2, e3, e4, e5, e6].all (agrees .DEFAULT)
#guard [e1, e2, e3, e4, e5, e6, e7].all (roundTrips .MYSQL) && [e1, e2, e3, e4, e5, e6, e7].all (roundTrips .HIVE)
-- MOD is printed only for some dialects, and `!` is unary everywhere except Hive: outside the fragment there
#guard !Frag .ORACLE e7 && Frag .MYSQL (.unary "LOGICAL_INVERSION" (col "a")) && !Frag .HIVE (.unary "LOGICAL_INVERSION" (col "a"))
-- grouping brackets are honoured: different trees, different renderings, each read back as itself
#guard !eqbL (toksE .MYSQL noX e1) (toksE .MYSQL noX (.compute (col "a") "PLUS" (.compute (col "b") "MULTIPLE" (.unary "SUBTRACT" (lit "2")))))
#guard (match PR.prE .MYSQL e1, PR.prE .MYSQL e3 with | .ok a, .ok b => a == "(`a` + `b`) * -2" && b == "`a` - (`b` - `c`)" | _, _ => false)
-- redundant brackets: around every sub-term at once
#guard (match pOr .MYSQL 2000 (toksE .MYSQL (fun _ => true) e4) with | .ok (e', []) => Drv.showVal e'.toVal == Drv.showVal e4.toVal | _ => false)
#guard sizeL (toksE .MYSQL (fun _ => true) e4) > sizeL (toksE .MYSQL noX e4)
-- plain names are atoms; the continuation may be any word that is no operator of the expression grammar
#guard colOK .MYSQL "a" && colOK .HIVE "select" && colOK .DB2 "_x9" && litOK .MYSQL "12" && litOK .MYSQL "'it''s'" && litOK .HIVE "NULL"
#guard stops .MYSQL (lexed "FROM t") && stops .MYSQL (lexed ", b") && stops .MYSQL (lexed "AS x") && !stops .MYSQL (lexed "+ 1") &&
  !stops .MYSQL (lexed "NOT LIKE 'a'") && !stops .MYSQL (lexed "(1)")

/-- instances of the theorems (no evaluation of the parser: the hypotheses are decided, the conclusion is the theorem's) -/
example : pOr .MYSQL (fuelFor (toksE .MYSQL noX e2 ++ lexed "FROM t")) (toksE .MYSQL noX e2 ++ lexed "FROM t") = .ok (e2, lexed "FROM t") :=
  tparse_entry_fuel .MYSQL noX e2 (by decide) _ (by decide)
example : pOr .HIVE 400 (toksE .HIVE noX e1) = .ok (e1, []) := C01.expr_round_trip_tokens .HIVE e1 (by decide) 400 (by decide)
end C02
