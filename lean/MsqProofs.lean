import MsqProofs.Lemmas.LexSem
import MsqProofs.Lemmas.LexInv
import MsqProofs.Lemmas.LexWK
import MsqProofs.Lemmas.LexLossless
import MsqProofs.Props.C04
import MsqProofs.Props.C02
import MsqProofs.Props.C14
import MsqProofs.Props.C20
